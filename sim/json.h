// Minimal JSON value + parser + string escaping (plan files in, result logs out).
#pragma once
#include <cstdint>
#include <cstdlib>
#include <map>
#include <memory>
#include <stdexcept>
#include <string>
#include <vector>

namespace osim {

struct Json {
    enum Type { Null, Bool, Num, Str, Arr, Obj } type = Null;
    bool b = false;
    double num = 0;
    long long inum = 0;
    bool isInt = false;
    std::string str;
    std::vector<Json> arr;
    std::vector<std::string> keys; // object members: keys[i] -> vals[i]
    std::vector<Json> vals;

    bool has(std::string const & k) const {
        for (auto const & kk : keys)
            if (kk == k) return true;
        return false;
    }
    Json const & operator[](std::string const & k) const;
    Json const & operator[](char const * k) const { return (*this)[std::string(k)]; }
    Json const & operator[](size_t i) const { return arr.at(i); }
    Json const & operator[](int i) const { return arr.at((size_t)i); }
    size_t size() const { return type == Arr ? arr.size() : keys.size(); }
    bool isNull() const { return type == Null; }
    long long asInt(long long dflt = 0) const {
        if (type == Num) return isInt ? inum : (long long)num;
        if (type == Bool) return b;
        return dflt;
    }
    double asDouble(double dflt = 0) const { return type == Num ? (isInt ? (double)inum : num) : dflt; }
    bool asBool(bool dflt = false) const {
        if (type == Bool) return b;
        if (type == Num) return asInt() != 0;
        return dflt;
    }
    std::string const & asStr() const { return str; }
    std::string strOr(std::string const & d) const { return type == Str ? str : d; }
};

inline Json const & Json::operator[](std::string const & k) const {
    static Json const nullJson;
    for (size_t i = 0; i < keys.size(); ++i)
        if (keys[i] == k) return vals[i];
    return nullJson;
}

class JsonParser {
    char const * p;
    char const * end;
    void ws() {
        while (p < end && (*p == ' ' || *p == '\n' || *p == '\t' || *p == '\r')) ++p;
    }
    [[noreturn]] void fail(char const * m) { throw std::runtime_error(std::string("json: ") + m); }
    std::string parseString() {
        if (*p != '"') fail("expected string");
        ++p;
        std::string out;
        while (p < end && *p != '"') {
            if (*p == '\\') {
                ++p;
                if (p >= end) fail("bad escape");
                switch (*p) {
                    case 'n': out += '\n'; break;
                    case 't': out += '\t'; break;
                    case 'r': out += '\r'; break;
                    case 'b': out += '\b'; break;
                    case 'f': out += '\f'; break;
                    case '/': out += '/'; break;
                    case '\\': out += '\\'; break;
                    case '"': out += '"'; break;
                    case 'u': {
                        if (end - p < 5) fail("bad \\u");
                        unsigned v = (unsigned)strtoul(std::string(p + 1, p + 5).c_str(), nullptr, 16);
                        p += 4;
                        if (v < 0x80) out += (char)v;
                        else if (v < 0x800) {
                            out += (char)(0xC0 | (v >> 6));
                            out += (char)(0x80 | (v & 0x3F));
                        } else {
                            out += (char)(0xE0 | (v >> 12));
                            out += (char)(0x80 | ((v >> 6) & 0x3F));
                            out += (char)(0x80 | (v & 0x3F));
                        }
                        break;
                    }
                    default: fail("bad escape char");
                }
                ++p;
            } else {
                out += *p++;
            }
        }
        if (p >= end) fail("unterminated string");
        ++p;
        return out;
    }
    Json parseValue() {
        ws();
        if (p >= end) fail("eof");
        Json j;
        if (*p == '{') {
            j.type = Json::Obj;
            ++p;
            ws();
            if (*p == '}') { ++p; return j; }
            while (true) {
                ws();
                std::string k = parseString();
                ws();
                if (*p != ':') fail("expected :");
                ++p;
                j.keys.push_back(std::move(k));
                j.vals.push_back(parseValue());
                ws();
                if (*p == ',') { ++p; continue; }
                if (*p == '}') { ++p; break; }
                fail("expected , or }");
            }
        } else if (*p == '[') {
            j.type = Json::Arr;
            ++p;
            ws();
            if (*p == ']') { ++p; return j; }
            while (true) {
                j.arr.push_back(parseValue());
                ws();
                if (*p == ',') { ++p; continue; }
                if (*p == ']') { ++p; break; }
                fail("expected , or ]");
            }
        } else if (*p == '"') {
            j.type = Json::Str;
            j.str = parseString();
        } else if (*p == 't' && end - p >= 4 && std::string(p, p + 4) == "true") {
            j.type = Json::Bool; j.b = true; p += 4;
        } else if (*p == 'f' && end - p >= 5 && std::string(p, p + 5) == "false") {
            j.type = Json::Bool; j.b = false; p += 5;
        } else if (*p == 'n' && end - p >= 4 && std::string(p, p + 4) == "null") {
            p += 4;
        } else {
            char const * s = p;
            bool isInt = true;
            if (*p == '-') ++p;
            while (p < end && ((*p >= '0' && *p <= '9') || *p == '.' || *p == 'e' || *p == 'E' || *p == '+' || *p == '-')) {
                if (*p == '.' || *p == 'e' || *p == 'E') isInt = false;
                ++p;
            }
            if (p == s) fail("unexpected char");
            std::string t(s, p);
            j.type = Json::Num;
            j.isInt = isInt;
            if (isInt) j.inum = strtoll(t.c_str(), nullptr, 10);
            j.num = strtod(t.c_str(), nullptr);
        }
        return j;
    }

public:
    static Json parse(std::string const & s) {
        JsonParser jp;
        jp.p = s.data();
        jp.end = s.data() + s.size();
        Json j = jp.parseValue();
        return j;
    }
};

inline std::string jsonEscape(std::string const & s) {
    std::string o;
    o.reserve(s.size() + 2);
    o += '"';
    for (unsigned char c : s) {
        switch (c) {
            case '"': o += "\\\""; break;
            case '\\': o += "\\\\"; break;
            case '\n': o += "\\n"; break;
            case '\t': o += "\\t"; break;
            case '\r': o += "\\r"; break;
            default:
                if (c < 0x20 || c >= 0x7f) {
                    char buf[8];
                    snprintf(buf, sizeof buf, "\\u%04x", c);
                    o += buf;
                } else
                    o += (char)c;
        }
    }
    o += '"';
    return o;
}

} // namespace osim
