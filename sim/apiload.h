// Loading generator-produced declarations and assertions through the Logic / MainSolver API (no Interpret, no std::cout).
#pragma once
#include "engines.h"
#include "simengine.h"

#include <logics/ArithLogic.h>
#include <logics/LogicFactory.h>

#include <memory>
#include <stdexcept>

namespace osim {
using namespace opensmt;

// ---- tiny s-expression reader for the generator's plain terms (no let / named / define-fun)
struct SX {
    bool atom = false;
    std::string tok;
    std::vector<SX> kids;
};

inline SX parseSx(std::string const & s, size_t & i) {
    while (i < s.size() && isspace((unsigned char)s[i])) ++i;
    SX x;
    if (i < s.size() && s[i] == '(') {
        ++i;
        while (true) {
            while (i < s.size() && isspace((unsigned char)s[i])) ++i;
            if (i >= s.size()) throw std::runtime_error("sexpr: eof");
            if (s[i] == ')') { ++i; break; }
            x.kids.push_back(parseSx(s, i));
        }
        return x;
    }
    x.atom = true;
    size_t j = i;
    while (j < s.size() && !isspace((unsigned char)s[j]) && s[j] != '(' && s[j] != ')') ++j;
    x.tok = s.substr(i, j - i);
    i = j;
    return x;
}

struct Instance {
    std::unique_ptr<Logic> logic;
    std::unique_ptr<SMTConfig> config;
    std::unique_ptr<MainSolver> solver;
    std::string error;

    SRef sortOf(SX const & x) {
        if (x.atom) {
            if (x.tok == "Bool") return logic->getSort_bool();
            auto * al = dynamic_cast<ArithLogic *>(logic.get());
            if (x.tok == "Int" && al) return al->getSort_int();
            if (x.tok == "Real" && al) return al->getSort_real();
            SortSymbol sym(x.tok, 0);
            SSymRef ss;
            if (!logic->peekSortSymbol(sym, ss)) ss = logic->declareSortSymbol(std::move(sym));
            return logic->getSort(ss, {});
        }
        // (Array I E)
        SortSymbol sym(x.kids.at(0).tok, (unsigned)x.kids.size() - 1);
        SSymRef ss;
        if (!logic->peekSortSymbol(sym, ss)) throw std::runtime_error("unknown sort constructor " + x.kids[0].tok);
        vec<SRef> args;
        for (size_t i = 1; i < x.kids.size(); ++i) args.push(sortOf(x.kids[i]));
        return logic->getSort(ss, std::move(args));
    }

    PTRef term(SX const & x) {
        if (x.atom) {
            char c = x.tok.empty() ? 'x' : x.tok[0];
            if (isdigit((unsigned char)c)) return logic->mkConst(x.tok.c_str());
            if (x.tok == "true") return logic->getTerm_true();
            if (x.tok == "false") return logic->getTerm_false();
            return logic->resolveTerm(x.tok.c_str(), {});
        }
        vec<PTRef> args;
        for (size_t i = 1; i < x.kids.size(); ++i) args.push(term(x.kids[i]));
        return logic->resolveTerm(x.kids.at(0).tok.c_str(), std::move(args));
    }

    // commands: (declare-sort U 0) (declare-fun f (S..) S) (declare-const c S) (assert t)
    void load(Json const & cmds) {
        for (auto const & c : cmds.arr) {
            size_t i = 0;
            SX x = parseSx(c.asStr(), i);
            std::string const & head = x.kids.at(0).tok;
            if (head == "declare-sort") {
                sortOf(x.kids.at(1));
            } else if (head == "declare-fun") {
                vec<SRef> args;
                for (auto const & a : x.kids.at(2).kids) args.push(sortOf(a));
                logic->declareFun(x.kids.at(1).tok, sortOf(x.kids.at(3)), args);
            } else if (head == "declare-const") {
                logic->declareFun(x.kids.at(1).tok, sortOf(x.kids.at(2)), {});
            } else if (head == "assert") {
                solver->insertFormula(term(x.kids.at(1)));
            }
        }
    }

    void build(Json const & t) {
        config = std::make_unique<SMTConfig>();
        for (auto const & o : t["options"].arr) {
            char const * msg = "ok";
            std::string const & v = o[1].asStr();
            SMTOption val = (v == "true" || v == "false") ? SMTOption(v == "true")
                            : (v.find('.') != std::string::npos ? SMTOption(atof(v.c_str())) : SMTOption(atoi(v.c_str())));
            config->setOption(o[0].asStr().c_str(), val, msg);
        }
        Logic_t lt = getLogicFromString(t["logic"].asStr() == "ALL" ? "QF_AUFLIRA" : t["logic"].asStr());
        logic.reset(LogicFactory::getInstance(lt));
        solver = makeSimMainSolver(*logic, *config, Knobs::fromJson(t["knobs"]), "task solver");
        load(t["commands"]);
    }
};


} // namespace osim
