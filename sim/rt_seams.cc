// Link-time seams: stdin delivery (read), clock (getrusage), libc PRNG (rand), heap layout (malloc family).
#include "rt_core.h"

#include <sys/resource.h>
#include <sys/time.h>
#include <unistd.h>

#include <cerrno>
#include <cstdlib>
#include <cstring>

namespace osim {

static StdinPlan g_stdin;
static ClockPlan g_clock;
static RandPlan g_rand;
StdinPlan & stdinPlan() { return g_stdin; }
ClockPlan & clockPlan() { return g_clock; }
RandPlan & randPlan() { return g_rand; }

} // namespace osim

extern "C" {

ssize_t __real_read(int fd, void * buf, size_t count);
OSIM_NOSAN ssize_t __wrap_read(int fd, void * buf, size_t count) {
    using namespace osim;
    StdinPlan & sp = stdinPlan();
    if (fd != 0 || !sp.active) return __real_read(fd, buf, count);
    ++sp.reads;
    size_t limit = sp.data.size();
    if (sp.eofAt >= 0 && (size_t)sp.eofAt < limit) limit = (size_t)sp.eofAt;
    if (sp.pos >= limit) return 0;
    size_t n = count;
    if (sp.chunkIdx < sp.chunks.size()) {
        int c = sp.chunks[sp.chunkIdx++];
        if (c < 1) c = 1;
        if ((size_t)c < n) n = (size_t)c;
    }
    if (n > limit - sp.pos) n = limit - sp.pos;
    memcpy(buf, sp.data.data() + sp.pos, n);
    sp.pos += n;
    sp.boundaries.push_back((long)sp.pos);
    return (ssize_t)n;
}

int __real_getrusage(int who, struct rusage * usage);
OSIM_NOSAN int __wrap_getrusage(int who, struct rusage * usage) {
    using namespace osim;
    ClockPlan & cp = clockPlan();
    if (!cp.active) return __real_getrusage(who, usage);
    ++cp.reads;
    memset(usage, 0, sizeof *usage);
    uint64_t t = ticksNow();
    int64_t ns = (int64_t)(t * cp.nsPerTick);
    for (auto const & j : cp.jumps)
        if (t >= j.first) ns += j.second;
    if (ns < 0) ns = 0;
    usage->ru_utime.tv_sec = ns / 1000000000ll;
    usage->ru_utime.tv_usec = (ns % 1000000000ll) / 1000;
    return 0;
}

int __real_rand(void);
OSIM_NOSAN int __wrap_rand(void) {
    using namespace osim;
    RandPlan & rp = randPlan();
    if (!rp.active) return __real_rand();
    ++rp.calls;
    // xorshift64*
    uint64_t x = rp.state;
    x ^= x >> 12;
    x ^= x << 25;
    x ^= x >> 27;
    rp.state = x;
    return (int)(((x * 2685821657736338717ull) >> 33) & 0x7fffffff);
}

} // extern "C"

// ------------------------------------------------------------------ heap layer (sim flavour only)
// Always on in the sim flavour: every block gets a seeded front padding (0..240 bytes in units of 16) and fresh
// blocks are filled with seeded garbage, so pointer order, pointer hashes and uninitialised reads all depend on
// the plan's heap seed. Aligned allocations bypass the layer and are remembered in a small table.
#if defined(OSIM_HEAP_LAYER)
extern "C" {
void * __libc_malloc(size_t);
void * __libc_calloc(size_t, size_t);
void * __libc_realloc(void *, size_t);
void __libc_free(void *);
void * __libc_memalign(size_t, size_t);
}

namespace {
struct Hdr {
    uint64_t magic;
    uint32_t back;
    uint32_t pad;
    uint64_t size;
};
constexpr uint64_t MAGIC = 0x051a51a51a51a5ull;
volatile uint64_t g_heapState = 0x9e3779b97f4a7c15ull;
volatile uint64_t g_allocs = 0;
volatile bool g_garbage = true;
constexpr int MAXAL = 1024;
void * g_aligned[MAXAL];
int g_nAligned = 0;

OSIM_NOSAN inline uint64_t nextRnd() {
    uint64_t x = g_heapState;
    x ^= x >> 12;
    x ^= x << 25;
    x ^= x >> 27;
    g_heapState = x;
    return x * 2685821657736338717ull;
}

OSIM_NOSAN void * layeredAlloc(size_t size, bool zero) {
    ++g_allocs;
    uint64_t r = nextRnd();
    size_t padUnits = (size_t)(r >> 60); // 0..15 units of 16 bytes
    size_t front = 32 + padUnits * 16;   // >= sizeof(Hdr), keeps 16-byte alignment
    char * raw = (char *)__libc_malloc(front + size + 8);
    if (!raw) return nullptr;
    char * user = raw + front;
    Hdr * h = (Hdr *)(user - sizeof(Hdr));
    h->magic = MAGIC;
    h->back = (uint32_t)front;
    h->pad = 0;
    h->size = size;
    if (zero) memset(user, 0, size);
    else if (g_garbage) {
        unsigned char fill = (unsigned char)(r >> 8);
        if (fill == 0) fill = 0xA5;
        // Large blocks (the solver's arenas: 2-4 MB each, ~16 MB per instance) come from fresh zero pages in a real
        // execution as well; filling them completely cost 50 ms of an otherwise 15 ms run. Stale contents are modelled
        // where a real allocator produces them: in small blocks, and at the start of large ones.
        memset(user, fill, size <= 65536 ? size : 32768);
    }
    return user;
}
OSIM_NOSAN inline bool isAligned(void * p, bool remove) {
    for (int i = 0; i < g_nAligned; ++i) {
        if (g_aligned[i] == p) {
            if (remove) g_aligned[i] = g_aligned[--g_nAligned];
            return true;
        }
    }
    return false;
}
OSIM_NOSAN inline Hdr * hdrOf(void * p) {
    Hdr * h = (Hdr *)((char *)p - sizeof(Hdr));
    return h->magic == MAGIC ? h : nullptr;
}
} // namespace

extern "C" {
OSIM_NOSAN void * malloc(size_t size) { return layeredAlloc(size, false); }
OSIM_NOSAN void * calloc(size_t n, size_t sz) {
    size_t total;
    if (__builtin_mul_overflow(n, sz, &total)) { errno = ENOMEM; return nullptr; }
    return layeredAlloc(total, true);
}
OSIM_NOSAN void free(void * p) {
    if (!p) return;
    if (g_nAligned && isAligned(p, true)) { __libc_free(p); return; }
    Hdr * h = hdrOf(p);
    if (h) {
        char * raw = (char *)p - h->back;
        h->magic = 0;
        memset(p, 0xDD, h->size < 64 ? h->size : 64); // poison the start of freed blocks
        __libc_free(raw);
        return;
    }
    __libc_free(p);
}
OSIM_NOSAN void * realloc(void * p, size_t size) {
    if (!p) return malloc(size);
    if (g_nAligned && isAligned(p, false)) return __libc_realloc(p, size);
    Hdr * h = hdrOf(p);
    if (h) {
        void * n = layeredAlloc(size, false);
        if (!n) return nullptr;
        memcpy(n, p, h->size < size ? h->size : size);
        free(p);
        return n;
    }
    return __libc_realloc(p, size);
}
OSIM_NOSAN static void * alignedAlloc(size_t a, size_t s) {
    void * p = __libc_memalign(a, s);
    if (p && g_nAligned < MAXAL) g_aligned[g_nAligned++] = p;
    return p;
}
OSIM_NOSAN void * memalign(size_t a, size_t s) { return alignedAlloc(a, s); }
OSIM_NOSAN void * aligned_alloc(size_t a, size_t s) { return alignedAlloc(a, s); }
OSIM_NOSAN int posix_memalign(void ** out, size_t a, size_t s) {
    void * p = alignedAlloc(a, s);
    if (!p) return ENOMEM;
    *out = p;
    return 0;
}
}

namespace osim {
void heapLayerConfigure(uint64_t seed, bool garbage) {
    g_heapState = seed * 0x9e3779b97f4a7c15ull + 0x1234567ull;
    if (g_heapState == 0) g_heapState = 1;
    g_garbage = garbage;
}
uint64_t heapLayerAllocs() { return g_allocs; }
} // namespace osim
#else
namespace osim {
void heapLayerConfigure(uint64_t, bool) {}
uint64_t heapLayerAllocs() { return 0; }
} // namespace osim
#endif
