#include "engines.h"
#include "rt_core.h"
namespace osim {
int runEngineX(Json const &) { logRaw("{\"ev\":\"harness-error\",\"what\":\"engine X not built\"}"); return 9; }
}
