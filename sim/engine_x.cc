// Engine X: the real main() of the opensmt executable (compiled with -Dmain=opensmt_cli_main) in a forked child;
// stdin, clock and heap go through the link-time seams; stdout/stderr are captured by the parent.
#include "engines.h"
#include "rt_core.h"

#include <fcntl.h>
#include <unistd.h>

#include <cstdio>
#include <cstdlib>
#include <cstring>
#include <exception>
#include <string>
#include <typeinfo>
#include <vector>

int opensmt_cli_main(int argc, char * argv[]);

namespace osim {

static std::string g_tmpPath;
static uint64_t g_allocBase = 0;

static void atExitRecord() {
    StdinPlan & sp = stdinPlan();
    std::string rec = "{\"ev\":\"x-exit\",\"ticks\":" + std::to_string(ticksNow()) + ",\"reads\":" + std::to_string(sp.reads) + ",\"served\":" + std::to_string(sp.pos) +
                      ",\"allocs\":" + std::to_string(heapLayerAllocs() - g_allocBase) + ",\"clock_reads\":" + std::to_string(clockPlan().reads) + ",\"boundaries\":[";
    for (size_t i = 0; i < sp.boundaries.size() && i < 4096; ++i) {
        if (i) rec += ",";
        rec += std::to_string(sp.boundaries[i]);
    }
    rec += "]}";
    setTickWatch(false);
    logRaw(rec);
    if (!g_tmpPath.empty()) unlink(g_tmpPath.c_str());
}

int runEngineX(Json const & plan) {
    static Task task;
    task.id = 0;
    setCurrentTask(&task);
    setTickBudget((uint64_t)plan["budget_ticks"].asInt(2000000000));

    std::string mode = plan["mode"].strOr("file");
    std::string const & script = plan["script"].asStr();
    std::vector<std::string> args;
    args.push_back("opensmt");
    for (auto const & a : plan["args"].arr) args.push_back(a.asStr());

    g_allocBase = heapLayerAllocs();
    if (plan.has("clock")) {
        ClockPlan & cp = clockPlan();
        cp.active = true;
        cp.nsPerTick = (uint64_t)plan["clock"]["ns_per_tick"].asInt(1000);
        for (auto const & j : plan["clock"]["jumps"].arr) cp.jumps.emplace_back((uint64_t)j[0].asInt(), (int64_t)j[1].asInt());
    }
    if (plan.has("rand_seed")) {
        RandPlan & rp = randPlan();
        rp.active = true;
        rp.state = (uint64_t)plan["rand_seed"].asInt(1) | 1;
    }

    if (mode == "pipe") {
        StdinPlan & sp = stdinPlan();
        sp.active = true;
        sp.data = script;
        for (auto const & c : plan["chunks"].arr) sp.chunks.push_back((int)c.asInt(1));
        sp.eofAt = plan.has("eof_at") && !plan["eof_at"].isNull() ? (long)plan["eof_at"].asInt() : -1;
        args.push_back("-p");
    } else {
        char const * dir = getenv("OSIM_TMPDIR");
        std::string d = dir ? dir : "/verif/build/tmp";
        g_tmpPath = d + "/x_" + std::to_string((long)getpid()) + ".smt2";
        FILE * f = fopen(g_tmpPath.c_str(), "wb");
        if (!f) {
            logRaw("{\"ev\":\"harness-error\",\"what\":\"cannot write temp script\"}");
            return 9;
        }
        size_t len = script.size();
        if (plan.has("eof_at") && !plan["eof_at"].isNull() && (size_t)plan["eof_at"].asInt() < len) len = (size_t)plan["eof_at"].asInt();
        fwrite(script.data(), 1, len, f);
        fclose(f);
        args.push_back(g_tmpPath);
    }
    std::vector<char *> argv;
    for (auto & a : args) argv.push_back(const_cast<char *>(a.c_str()));
    argv.push_back(nullptr);
    logRaw("{\"ev\":\"run-begin\",\"engine\":\"X\",\"mode\":\"" + mode + "\"}");
    atexit(atExitRecord);
    setTickWatch(true);
    int rc = 0;
    try {
        rc = opensmt_cli_main((int)args.size(), argv.data());
    } catch (std::exception const & e) {
        // an exception leaving main() is std::terminate in the real executable
        setTickWatch(false);
        logRaw(std::string("{\"ev\":\"death\",\"kind\":\"TERMINATE\",\"what\":") + jsonEscape(std::string(typeid(e).name()) + ": " + e.what()) + "}");
        fflush(stdout);
        _exit(5);
    } catch (...) {
        setTickWatch(false);
        logRaw("{\"ev\":\"death\",\"kind\":\"TERMINATE\",\"what\":\"unknown exception\"}");
        fflush(stdout);
        _exit(5);
    }
    setTickWatch(false);
    fflush(stdout);
    logRaw("{\"ev\":\"x-return\",\"rc\":" + std::to_string(rc) + "}");
    exit(rc); // like returning from the real main: runs atexit handlers and static destructors
}

} // namespace osim
