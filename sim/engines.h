#pragma once
#include "json.h"

namespace osim {
// Each engine executes one plan inside the (forked) child and writes records to the result log.
int runEngineH(Json const & plan);
int runEngineT(Json const & plan);
int runEngineX(Json const & plan);
int runEngineM(Json const & plan);

// shared helpers (engine_h.cc)
struct Knobs {
    long nof_learnts = -1;
    double nofLearntsIncrement = -1;
    double sat_initial_skip_step = -1;
    double sat_skip_step_factor = -1;
    long sat_learn_up_to_size = -1;
    long sat_temporary_learn = -1;
    long sat_minimize_conflicts = -1;
    double proof_red_time = -1;
    static Knobs fromJson(Json const & j);
};
} // namespace osim
