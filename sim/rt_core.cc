// Simulator runtime core: tick hook, baton scheduler, result log, ELF symbol lookup.
// Compiled without -finstrument-functions and without -fsanitize=thread (see build.sh): the
// baton must be invisible to ThreadSanitizer so that TSan's happens-before analysis sees only the
// synchronisation the product itself performs.
#include "rt_core.h"

#include <cxxabi.h>
#include <elf.h>
#include <fcntl.h>
#include <link.h>
#include <linux/futex.h>
#include <pthread.h>
#include <sys/mman.h>
#include <sys/stat.h>
#include <sys/syscall.h>
#include <unistd.h>

#include <algorithm>
#include <climits>
#include <cstdio>
#include <cstdlib>
#include <cstring>

// Sanitizer defaults: distinguishable exit codes, no leak noise. These run during sanitizer start-up and must not be
// instrumented themselves (this file is compiled without -fsanitize=thread and without -finstrument-functions).
extern "C" __attribute__((used, visibility("default"), no_sanitize("address", "thread", "undefined"))) const char * __asan_default_options() {
    return "exitcode=77:detect_leaks=0:abort_on_error=0:allocator_may_return_null=1:detect_stack_use_after_return=0";
}
extern "C" __attribute__((used, visibility("default"), no_sanitize("address", "thread", "undefined"))) const char * __ubsan_default_options() {
    return "print_stacktrace=1:halt_on_error=1:exitcode=78";
}
extern "C" __attribute__((used, visibility("default"), no_sanitize("address", "thread", "undefined"))) const char * __tsan_default_options() {
    return "exitcode=66:halt_on_error=0:report_signal_unsafe=0:second_deadlock_stack=0:history_size=4";
}

namespace osim {

// ------------------------------------------------------------------ log
static int g_logfd = 1;
void logOpen(int fd) { g_logfd = fd; }
int logFd() { return g_logfd; }
OSIM_NOINSTR void logRaw(std::string const & s) {
    std::string line = s;
    line += '\n';
    size_t off = 0;
    while (off < line.size()) {
        ssize_t w = ::write(g_logfd, line.data() + off, line.size() - off);
        if (w <= 0) break;
        off += (size_t)w;
    }
}

// ------------------------------------------------------------------ clock
static thread_local Task * tl_task = nullptr;
static volatile bool g_watch = false;
static volatile uint64_t g_budget = ~0ull;
static volatile bool g_schedActive = false;

OSIM_NOSAN Task * currentTask() { return tl_task; }
OSIM_NOSAN void setCurrentTask(Task * t) { tl_task = t; }
OSIM_NOSAN uint64_t ticksNow() { return tl_task ? tl_task->ticks : 0; }
OSIM_NOSAN void setTickBudget(uint64_t b) { g_budget = b; }
OSIM_NOSAN bool setTickWatch(bool on) { bool prev = g_watch; g_watch = on; return prev; }

static OSIM_NOSAN void schedPoint(Task * t, bool finished);

// Where does a run that exhausted its tick budget spin?  After the budget is reached the run goes on for
// LOOP_WINDOW more ticks; at every tick the call stack is walked along the frame pointers (the product is built
// with -fno-omit-frame-pointer) and the shallowest stack seen is kept.  Its innermost return address lies in the
// function whose loop keeps calling: that function is the "loop site" reported with the LIVENESS record.
static constexpr uint64_t LOOP_WINDOW = 300000;
static constexpr int LOOP_MAXDEPTH = 256;
static int g_minDepth = LOOP_MAXDEPTH + 1;
static void * g_minRet = nullptr;    // return address into the caller of the shallowest ticking function
static void * g_minRet2 = nullptr;   // and into the caller's caller

static OSIM_NOSAN void sampleStack(void ** fp) {
    // fp: frame pointer of the ticking function (caller of __cyg_profile_func_enter)
    int depth = 0;
    void * ret1 = nullptr, * ret2 = nullptr;
    uintptr_t prev = 0;
    while (fp && depth < LOOP_MAXDEPTH) {
        uintptr_t cur = (uintptr_t)fp;
        if (cur <= prev || (cur & 7)) break; // frames must move up the stack
        void * ret = fp[1];
        if (!ret) break;
        if (depth == 0) ret1 = ret;
        if (depth == 1) ret2 = ret;
        ++depth;
        prev = cur;
        fp = (void **)fp[0];
    }
    if (depth < g_minDepth) {
        g_minDepth = depth;
        g_minRet = ret1;
        g_minRet2 = ret2;
    }
}

static OSIM_NOSAN void livenessAbort(Task * t) {
    g_watch = false; // library templates used below may come from instrumented translation units: no ticks from here on
    char buf[700];
    std::string loop = g_minRet ? symbolOf(g_minRet) : std::string("?");
    std::string outer = g_minRet2 ? symbolOf(g_minRet2) : std::string("?");
    for (auto * str : {&loop, &outer}) {
        for (auto & ch : *str) { if (ch == '"' || ch == '\\' || (unsigned char)ch < 32) ch = '_'; }
        if (str->size() > 200) str->resize(200);
    }
    int n = snprintf(buf, sizeof buf, "{\"ev\":\"death\",\"kind\":\"LIVENESS\",\"task\":%d,\"ticks\":%llu,\"loop\":\"%s\",\"loop_caller\":\"%s\"}\n", t->id,
                     (unsigned long long)t->ticks, loop.c_str(), outer.c_str());
    if (n > 0) { ssize_t w = ::write(g_logfd, buf, (size_t)n); (void)w; }
    _exit(3);
}

extern "C" {
OSIM_NOSAN void __cyg_profile_func_enter(void * fn, void *) {
    if (!g_watch) return;
    Task * t = tl_task;
    if (!t) return;
    uint64_t now = ++t->ticks;
    t->lastFn = fn;
    if (now >= g_budget) {
        sampleStack((void **)__builtin_frame_address(1));
        if (now >= g_budget + LOOP_WINDOW) livenessAbort(t);
    }
    if (g_schedActive && t->quantum > 0) {
        if (--t->quantum == 0) schedPoint(t, false);
    }
}
OSIM_NOSAN void __cyg_profile_func_exit(void *, void *) {}
}

// ------------------------------------------------------------------ scheduler
static constexpr int MAXT = 32;
static Task * g_tasks[MAXT];
static int g_ntasks = 0;
static Quantum * g_plan = nullptr;
static size_t g_planLen = 0, g_planIdx = 0;
static volatile int g_baton = -1; // -1: main thread
static volatile uint64_t g_switches = 0;
static volatile bool g_deadlock = false;
static int g_rr = 0;

static OSIM_NOSAN void futexWait(volatile int * addr, int val) {
    syscall(SYS_futex, addr, FUTEX_WAIT, val, nullptr, nullptr, 0);
}
static OSIM_NOSAN void futexWakeAll(volatile int * addr) {
    syscall(SYS_futex, addr, FUTEX_WAKE, INT_MAX, nullptr, nullptr, 0);
}
static OSIM_NOSAN void fence() { __asm__ __volatile__("mfence" ::: "memory"); }

static OSIM_NOSAN void waitForBaton(int id) {
    while (true) {
        int b = g_baton;
        if (b == id) break;
        futexWait(&g_baton, b);
    }
    fence();
}

static OSIM_NOSAN void passBaton(int to) {
    fence();
    g_baton = to;
    fence();
    futexWakeAll(&g_baton);
}

// Choose the next task to run and its quantum. Returns -1 if nobody can run.
static OSIM_NOSAN int pickNext(int64_t & q) {
    while (g_planIdx < g_planLen) {
        Quantum const & e = g_plan[g_planIdx++];
        if (e.task < 0 || e.task >= g_ntasks) continue;
        Task * t = g_tasks[e.task];
        if (t->finished) continue;
        q = e.ticks;
        return e.task;
    }
    // plan exhausted: round robin, each until it finishes or blocks
    for (int k = 0; k < g_ntasks; ++k) {
        int i = (g_rr + k) % g_ntasks;
        if (!g_tasks[i]->finished && !g_tasks[i]->blocked) {
            g_rr = i + 1;
            q = -1;
            return i;
        }
    }
    for (int k = 0; k < g_ntasks; ++k) {
        int i = (g_rr + k) % g_ntasks;
        if (!g_tasks[i]->finished) { // only blocked tasks are left: let one retry
            g_rr = i + 1;
            q = -1;
            return i;
        }
    }
    return -1;
}

struct SwitchRec {
    int from;
    int to;
    uint64_t ticks;
    void const * fn;
};
static constexpr size_t MAXSW = 8192;
static SwitchRec g_sw[MAXSW];
static size_t g_nsw = 0;

static OSIM_NOSAN void recordSwitch(Task * from, int to) {
    ++g_switches;
    if (g_nsw < MAXSW) {
        g_sw[g_nsw++] = SwitchRec{from ? from->id : -1, to, from ? (uint64_t)from->ticks : 0, from ? (void const *)from->lastFn : nullptr};
    }
}

static volatile int g_blockedSpins = 0;

static OSIM_NOSAN void schedPoint(Task * t, bool finished) {
    bool watch = g_watch;
    g_watch = false; // never tick inside the scheduler
    if (finished) t->finished = true;
    int64_t q = -1;
    int next = pickNext(q);
    if (next < 0) {
        // everybody finished
        recordSwitch(t, -1);
        g_watch = watch;
        passBaton(-1);
        return;
    }
    if (next == t->id) {
        t->quantum = q;
        if (t->blocked) {
            if (++g_blockedSpins > 100000) {
                g_deadlock = true;
                char const * m = "{\"ev\":\"death\",\"kind\":\"DEADLOCK\"}\n";
                ssize_t w = ::write(g_logfd, m, strlen(m)); (void)w;
                _exit(4);
            }
        }
        g_watch = watch;
        return;
    }
    g_blockedSpins = 0;
    recordSwitch(t, next);
    g_tasks[next]->quantum = q;
    g_watch = watch;
    passBaton(next);
    if (!finished) waitForBaton(t->id);
}

OSIM_NOSAN void schedInit(std::vector<Task *> const & tasks, std::vector<Quantum> const & plan) {
    g_ntasks = 0;
    for (Task * t : tasks) {
        if (g_ntasks < MAXT) g_tasks[g_ntasks++] = t;
    }
    g_planLen = plan.size();
    g_plan = (Quantum *)malloc(sizeof(Quantum) * (g_planLen + 1));
    for (size_t i = 0; i < g_planLen; ++i) g_plan[i] = plan[i];
    g_planIdx = 0;
    g_baton = -1;
    g_switches = 0;
    g_rr = 0;
    g_nsw = 0;
    g_schedActive = true;
}

OSIM_NOSAN void schedTaskBegin(Task * t) {
    tl_task = t;
    waitForBaton(t->id);
}

OSIM_NOSAN void schedTaskEnd(Task * t) {
    tl_task = nullptr; // whatever this thread still executes after handing the baton on is not simulated time
    schedPoint(t, true);
}

OSIM_NOSAN void schedRun() {
    int64_t q = -1;
    int first = pickNext(q);
    if (first < 0) return;
    g_tasks[first]->quantum = q;
    recordSwitch(nullptr, first);
    passBaton(first);
    waitForBaton(-1);
    g_schedActive = false;
}

OSIM_NOSAN uint64_t schedSwitches() { return g_switches; }
std::vector<std::string> schedTrace() {
    std::vector<std::string> out;
    for (size_t i = 0; i < g_nsw; ++i) {
        char buf[64];
        snprintf(buf, sizeof buf, "%d@%llu>%d", g_sw[i].from, (unsigned long long)g_sw[i].ticks, g_sw[i].to);
        std::string s = buf;
        if (g_sw[i].fn) { s += ":"; s += symbolOf(g_sw[i].fn); }
        out.push_back(s);
    }
    return out;
}
OSIM_NOSAN bool schedDeadlocked() { return g_deadlock; }

// Product-level mutexes under the serialising scheduler: try-lock or yield.
extern "C" int __real_pthread_mutex_lock(pthread_mutex_t *);
extern "C" OSIM_NOSAN int __wrap_pthread_mutex_lock(pthread_mutex_t * m) {
    Task * t = tl_task;
    if (!g_schedActive || !t) return __real_pthread_mutex_lock(m);
    while (true) {
        int r = pthread_mutex_trylock(m);
        if (r == 0) {
            t->blocked = false;
            return 0;
        }
        if (r != EBUSY) return r;
        t->blocked = true;
        schedPoint(t, false);
    }
}

// ------------------------------------------------------------------ ELF symbols
struct Sym {
    uintptr_t addr;
    uintptr_t size;
    char const * name;
};
static Sym * g_syms = nullptr;
static size_t g_nsyms = 0;
static uintptr_t g_loadBase = 0;
static bool g_symsLoaded = false;

static int phdrCb(struct dl_phdr_info * info, size_t, void *) {
    g_loadBase = info->dlpi_addr; // first entry is the main program
    return 1;
}

static void loadSyms() {
    g_symsLoaded = true;
    dl_iterate_phdr(phdrCb, nullptr);
    int fd = open("/proc/self/exe", O_RDONLY);
    if (fd < 0) return;
    struct stat st;
    if (fstat(fd, &st) != 0) { close(fd); return; }
    void * map = mmap(nullptr, (size_t)st.st_size, PROT_READ, MAP_PRIVATE, fd, 0);
    close(fd);
    if (map == MAP_FAILED) return;
    auto * base = (unsigned char *)map;
    auto * eh = (Elf64_Ehdr *)base;
    auto * sh = (Elf64_Shdr *)(base + eh->e_shoff);
    for (int i = 0; i < eh->e_shnum; ++i) {
        if (sh[i].sh_type != SHT_SYMTAB) continue;
        auto * syms = (Elf64_Sym *)(base + sh[i].sh_offset);
        size_t n = sh[i].sh_size / sizeof(Elf64_Sym);
        char const * strtab = (char const *)(base + sh[sh[i].sh_link].sh_offset);
        g_syms = (Sym *)malloc(sizeof(Sym) * n);
        for (size_t k = 0; k < n; ++k) {
            if (ELF64_ST_TYPE(syms[k].st_info) != STT_FUNC || syms[k].st_value == 0) continue;
            g_syms[g_nsyms++] = Sym{(uintptr_t)syms[k].st_value, (uintptr_t)syms[k].st_size, strtab + syms[k].st_name};
        }
        std::sort(g_syms, g_syms + g_nsyms, [](Sym const & a, Sym const & b) { return a.addr < b.addr; });
        break;
    }
    // mapping intentionally kept: names point into it
}

std::string symbolOf(void const * fn) {
    if (!g_symsLoaded) loadSyms();
    uintptr_t a = (uintptr_t)fn - g_loadBase;
    size_t lo = 0, hi = g_nsyms;
    while (lo < hi) {
        size_t mid = (lo + hi) / 2;
        if (g_syms[mid].addr <= a) lo = mid + 1;
        else hi = mid;
    }
    if (lo == 0) return "?";
    Sym const & s = g_syms[lo - 1];
    if (a >= s.addr + (s.size ? s.size : 1) && a != s.addr) return "?";
    int status = 0;
    char * dem = abi::__cxa_demangle(s.name, nullptr, nullptr, &status);
    std::string out = (status == 0 && dem) ? dem : s.name;
    free(dem);
    // strip the argument list: keep qualified name only
    size_t par = out.find('(');
    if (par != std::string::npos) out.resize(par);
    return out;
}

} // namespace osim
