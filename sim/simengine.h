// SAT-engine subclass that only moves thresholds the solver already consults (N7), and an Interpret
// subclass that injects it through the virtual createMainSolver seam (the same seam the repository's
// parallel/SplitterInterpret uses).
#pragma once
#include "engines.h"
#include "monitors.h"

#include <api/Interpret.h>
#include <api/MainSolver.h>
#include <smtsolvers/GhostSMTSolver.h>
#include <smtsolvers/LookaheadSMTSolver.h>
#include <smtsolvers/SimpSMTSolver.h>

namespace osim {

template<class Base> struct SimEngine : Base {
    SimEngine(opensmt::SMTConfig & c, opensmt::THandler & th, Knobs const & k) : Base(c, th) {
        if (k.nof_learnts >= 0) this->nof_learnts = (int)k.nof_learnts;
        if (k.nofLearntsIncrement > 0) this->nofLearntsIncrement = k.nofLearntsIncrement;
    }
    opensmt::THandler & thandlerRef() { return this->theory_handler; }
};

inline void applyConfigKnobs(opensmt::SMTConfig & c, Knobs const & k) {
    if (k.sat_initial_skip_step >= 0) c.sat_initial_skip_step = k.sat_initial_skip_step;
    if (k.sat_skip_step_factor >= 0) c.sat_skip_step_factor = k.sat_skip_step_factor;
    if (k.sat_learn_up_to_size >= 0) c.sat_learn_up_to_size = (int)k.sat_learn_up_to_size;
    if (k.sat_temporary_learn >= 0) c.sat_temporary_learn = (int)k.sat_temporary_learn;
    if (k.sat_minimize_conflicts >= 0) c.sat_minimize_conflicts = (int)k.sat_minimize_conflicts;
    if (k.proof_red_time >= 0) c.proof_red_time = k.proof_red_time;
}

// Same selection order as MainSolver::createInnerSolver.
inline std::unique_ptr<opensmt::SimpSMTSolver> makeSimInnerSolver(opensmt::SMTConfig & config, opensmt::THandler & th, Knobs const & k) {
    using namespace opensmt;
    if (config.sat_pure_lookahead()) return std::make_unique<SimEngine<LookaheadSMTSolver>>(config, th, k);
    if (config.use_ghost_vars()) return std::make_unique<SimEngine<GhostSMTSolver>>(config, th, k);
    if (config.sat_picky()) return std::make_unique<SimEngine<LookaheadSMTSolver>>(config, th, k);
    return std::make_unique<SimEngine<SimpSMTSolver>>(config, th, k);
}

inline std::unique_ptr<opensmt::MainSolver> makeSimMainSolver(opensmt::Logic & logic, opensmt::SMTConfig & config, Knobs const & k,
                                                                std::string const & name) {
    using namespace opensmt;
    applyConfigKnobs(config, k);
    auto th = MainSolver::createTheory(logic, config);
    auto tm = std::make_unique<TermMapper>(logic);
    auto * thandler = new THandler(*th, *tm);
    auto inner = makeSimInnerSolver(config, *thandler, k);
    return std::make_unique<MainSolver>(std::move(th), std::move(tm), std::unique_ptr<THandler>(thandler), std::move(inner), logic, config, name);
}

class SimInterpret : public opensmt::Interpret {
    Knobs knobs;
    char const * role;

public:
    SimInterpret(opensmt::SMTConfig & c, Knobs const & k, char const * role) : Interpret(c), knobs(k), role(role) {}
    bool hasSolver() const { return main_solver != nullptr; }
    opensmt::Logic * logicPtr() { return logic.get(); }

protected:
    std::unique_ptr<opensmt::MainSolver> createMainSolver(char const * logic_name) override {
        auto ms = makeSimMainSolver(*logic, config, knobs, std::string(logic_name) + " solver");
        monitorsRegisterMainSolver(ms.get(), role);
        return ms;
    }
};

} // namespace osim
