// osim: plan file -> result log. Every plan runs in its own child forked from a single-threaded parent,
// so that a run is a pure function of (binary, plan).
//   osim run <plan.json>     one plan; response line on stdout
//   osim serve               one plan per stdin line; one response line per plan on stdout
#include "engines.h"
#include "json.h"
#include "rt_core.h"

#include <fcntl.h>
#include <poll.h>
#include <signal.h>
#include <sys/mman.h>
#include <sys/resource.h>
#include <sys/wait.h>
#include <unistd.h>

#include <chrono>
#include <cstdio>
#include <cstring>
#include <exception>
#include <fstream>
#include <iostream>
#include <sstream>

namespace osim {

static void terminateHandler() {
    char const * m = "{\"ev\":\"death\",\"kind\":\"TERMINATE\"}\n";
    ssize_t w = ::write(logFd(), m, strlen(m));
    (void)w;
    _exit(5);
}

static int dispatch(Json const & plan) {
    std::string eng = plan["engine"].strOr("H");
    if (eng == "H") return runEngineH(plan);
    if (eng == "T") return runEngineT(plan);
    if (eng == "X") return runEngineX(plan);
    if (eng == "M") return runEngineM(plan);
    logRaw("{\"ev\":\"harness-error\",\"what\":\"unknown engine\"}");
    return 9;
}

// Simulator-owned address-space layout ("simulated ASLR"): with real ASLR switched off (the server is started under
// setarch -R) the addresses of stack, brk heap and mmap regions are a function of the plan's three offsets, so that a
// layout-dependent output replays exactly.
__attribute__((noinline)) static int dispatchWithStackPad(Json const & plan, size_t pad) {
    volatile char * p = (volatile char *)__builtin_alloca(pad + 16);
    p[0] = 1;
    p[pad] = 2;
    int rc = dispatch(plan);
    return rc + (p[0] - 1);
}

static int dispatchWithLayout(Json const & plan) {
    if (!plan.has("layout")) return dispatch(plan);
    Json const & L = plan["layout"];
    size_t brkOff = (size_t)L["brk"].asInt(0), mmapOff = (size_t)L["mmap"].asInt(0), stackOff = (size_t)L["stack"].asInt(0);
    if (brkOff) { void * r = sbrk((intptr_t)(brkOff & ~(size_t)15)); (void)r; }
    if (mmapOff) { void * r = mmap(nullptr, (mmapOff + 4095) & ~(size_t)4095, PROT_NONE, MAP_PRIVATE | MAP_ANONYMOUS | MAP_NORESERVE, -1, 0); (void)r; }
    if (stackOff > (4u << 20)) stackOff = 4u << 20;
    return dispatchWithStackPad(plan, stackOff & ~(size_t)15);
}

static std::string readAll(int fd) {
    std::string s;
    char buf[65536];
    lseek(fd, 0, SEEK_SET);
    while (true) {
        ssize_t r = ::read(fd, buf, sizeof buf);
        if (r <= 0) break;
        s.append(buf, (size_t)r);
    }
    return s;
}

// Executes one plan in a forked child; returns the response line.
static std::string executePlan(std::string const & planText) {
    Json plan;
    try {
        plan = JsonParser::parse(planText);
    } catch (std::exception const & e) {
        return std::string("{\"id\":null,\"harness_error\":") + jsonEscape(e.what()) + "}";
    }
    long wallS = plan["wall_s"].asInt(120);
    long cpuS = plan["cpu_s"].asInt(60);
    int logfd = memfd_create("osim-log", 0);
    int outfd = memfd_create("osim-out", 0);
    int errfd = memfd_create("osim-err", 0);
    fflush(stdout);
    fflush(stderr);
    pid_t pid = fork();
    if (pid == 0) {
        // child
        dup2(outfd, 1);
        dup2(errfd, 2);
        // stdio allocates the buffer of stdout at the first output: in the very first child of a server it does not exist yet,
        // in later ones it was inherited from the parent. A static buffer makes the child's allocation sequence (and with it the
        // heap layer's padding / garbage stream) independent of how many plans the server has executed before.
        static char childOutBuf[1 << 16];
        setvbuf(stdout, childOutBuf, _IOFBF, sizeof childOutBuf);
        int devnull = open("/dev/null", O_RDONLY);
        if (devnull >= 0) dup2(devnull, 0);
        logOpen(logfd);
        struct rlimit rl;
        rl.rlim_cur = (rlim_t)cpuS;
        rl.rlim_max = (rlim_t)cpuS + 2;
        setrlimit(RLIMIT_CPU, &rl);
        rl.rlim_cur = rl.rlim_max = 0;
        setrlimit(RLIMIT_CORE, &rl);
        std::set_terminate(terminateHandler);
        // heap layout is part of the plan: never inherit the allocator PRNG state of the long-lived parent
        heapLayerConfigure((uint64_t)plan["heap_seed"].asInt(0), plan.has("heap_garbage") ? plan["heap_garbage"].asBool(true) : true);
        int rc = 9;
        try {
            rc = dispatchWithLayout(plan);
        } catch (std::exception const & e) {
            logRaw(std::string("{\"ev\":\"harness-error\",\"what\":") + jsonEscape(e.what()) + "}");
            rc = 9;
        }
        fflush(stdout);
        std::cout.flush();
        _exit(rc);
    }
    // parent: wait with wall-clock backstop
    int status = 0;
    bool timedOut = false;
    auto t0 = std::chrono::steady_clock::now();
    while (true) {
        pid_t r = waitpid(pid, &status, WNOHANG);
        if (r == pid) break;
        auto el = std::chrono::duration_cast<std::chrono::milliseconds>(std::chrono::steady_clock::now() - t0).count();
        if (el > wallS * 1000) {
            kill(pid, SIGKILL);
            waitpid(pid, &status, 0);
            timedOut = true;
            break;
        }
        usleep(el < 50 ? 200 : 2000);
    }
    std::string log = readAll(logfd);
    std::string out = readAll(outfd);
    std::string err = readAll(errfd);
    close(logfd);
    close(outfd);
    close(errfd);
    std::string resp = "{\"id\":";
    resp += plan.has("id") ? (plan["id"].type == Json::Str ? jsonEscape(plan["id"].asStr()) : std::to_string(plan["id"].asInt())) : "null";
    resp += ",\"exit\":" + std::to_string(WIFEXITED(status) ? WEXITSTATUS(status) : -1);
    resp += ",\"sig\":" + std::to_string(WIFSIGNALED(status) ? WTERMSIG(status) : 0);
    resp += std::string(",\"wall_timeout\":") + (timedOut ? "true" : "false");
    if (out.size() > 4000000) out.resize(4000000);
    if (err.size() > 200000) err.resize(200000);
    resp += ",\"stdout\":" + jsonEscape(out);
    resp += ",\"stderr\":" + jsonEscape(err);
    resp += ",\"log\":[";
    size_t pos = 0;
    bool first = true;
    while (pos < log.size()) {
        size_t nl = log.find('\n', pos);
        if (nl == std::string::npos) break; // partial last line (child died while writing): dropped
        if (nl > pos) {
            if (!first) resp += ",";
            first = false;
            resp.append(log, pos, nl - pos);
        }
        pos = nl + 1;
    }
    resp += "]}";
    return resp;
}

} // namespace osim

int main(int argc, char ** argv) {
    using namespace osim;
    signal(SIGPIPE, SIG_IGN);
    if (argc >= 3 && std::string(argv[1]) == "run") {
        // "osim run -": the plan is read from stdin, so that argv (and with it the initial stack address) does not depend on it
        std::stringstream ss;
        if (std::string(argv[2]) == "-") {
            ss << std::cin.rdbuf();
        } else {
            std::ifstream in(argv[2]);
            ss << in.rdbuf();
        }
        std::string resp = executePlan(ss.str());
        printf("%s\n", resp.c_str());
        return 0;
    }
    if (argc >= 2 && std::string(argv[1]) == "serve") {
        std::string line;
        while (std::getline(std::cin, line)) {
            if (line.empty()) continue;
            std::string resp = executePlan(line);
            fputs(resp.c_str(), stdout);
            fputc('\n', stdout);
            fflush(stdout);
        }
        return 0;
    }
    fprintf(stderr, "usage: osim run <plan.json> | osim serve\n");
    return 2;
}
