#include "engines.h"
#include "rt_core.h"
namespace osim {
int runEngineT(Json const &) { logRaw("{\"ev\":\"harness-error\",\"what\":\"engine T not built\"}"); return 9; }
}
