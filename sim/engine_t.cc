// Engine T: the real Theory / TSolverHandler / THandler obtained through the real preprocessing + CNF pipeline;
// the simulator replaces the SAT engine and issues assert / check / backtrack / deduce operations on a trail it owns.
#include "apiload.h"
#include "engines.h"
#include "monitors.h"
#include "rt_core.h"

using namespace opensmt;

namespace osim {

int runEngineT(Json const & plan) {
    static Task task;
    task.id = 0;
    setCurrentTask(&task);
    setTickBudget((uint64_t)plan["budget_ticks"].asInt(200000000));
    MonitorConfig mc;
    mc.tclauses = plan["monitors"]["tclauses"].asBool();
    mc.farkas = plan["monitors"]["farkas"].asBool();
    monitorsInstall(mc, plan["unusual"]);
    logRaw("{\"ev\":\"run-begin\",\"engine\":\"T\"}");

    Instance inst;
    setTickWatch(true);
    try {
        inst.build(plan);
    } catch (std::exception const & e) {
        setTickWatch(false);
        logRaw(std::string("{\"ev\":\"build-error\",\"what\":") + jsonEscape(e.what()) + "}");
        return 0;
    }
    MainSolver & ms = *inst.solver;
    try {
        sstat pre = ms.simplifyFormulas();
        if (pre == s_False) {
            setTickWatch(false);
            logRaw("{\"ev\":\"t-trivial\",\"why\":\"unsat in preprocessing\"}");
            return 0;
        }
        ms.getSMTSolver().declareVarsToTheories();
    } catch (std::exception const & e) {
        setTickWatch(false);
        logRaw(std::string("{\"ev\":\"t-trivial\",\"why\":") + jsonEscape(std::string("exception while declaring atoms: ") + e.what()) + "}");
        return 0;
    }
    setTickWatch(false);
    THandler & th = ms.getTHandler();
    Logic & logic = ms.getLogic();

    // atom pool: every SAT variable declared to the theory solvers
    std::vector<Var> atoms;
    int nv = ms.getSMTSolver().nVars();
    for (Var v = 2; v < nv; ++v) {
        if (!th.isDeclared(v)) continue;
        atoms.push_back(v);
    }
    {
        std::string rec = "{\"ev\":\"t-atoms\",\"ctx\":" + std::to_string(logicCtx(logic)) + ",\"atoms\":[";
        bool first = true;
        for (Var v : atoms) {
            bool tl = false;
            std::string t = printTerm(logic, th.varToTerm(v).x, tl);
            if (!first) rec += ",";
            first = false;
            rec += jsonEscape(tl ? "" : t);
        }
        rec += "]}";
        logRaw(rec);
    }
    if (atoms.empty()) {
        logRaw("{\"ev\":\"t-trivial\",\"why\":\"no theory atom\"}");
        return 0;
    }

    vec<Lit> trail;          // what the SAT engine would hold
    std::vector<int> atomOf; // index into atoms per trail position
    std::vector<char> onTrail(atoms.size(), 0);
    std::vector<char> deducedAt; // per trail position: 1 if the literal was adopted from a theory deduction
    vec<VarData> vardata;
    vardata.growTo(nv);
    for (int i = 0; i < nv; ++i) vardata[i] = VarData{CRef_Undef, 0};
    std::vector<int> atomIndexOfVar(nv, -1);
    for (size_t i = 0; i < atoms.size(); ++i) atomIndexOfVar[atoms[i]] = (int)i;

    auto trailJson = [&]() {
        std::string s = "[";
        for (int i = 0; i < trail.size(); ++i) {
            if (i) s += ",";
            s += std::to_string(sign(trail[i]) ? -(atomOf[i] + 1) : (atomOf[i] + 1));
        }
        return s + "]";
    };
    auto popTo = [&](int size) {
        while (trail.size() > size) {
            onTrail[atomOf.back()] = 0;
            atomOf.pop_back();
            deducedAt.pop_back();
            trail.pop();
        }
        setTickWatch(true);
        th.backtrack(trail.size());
        setTickWatch(false);
    };
    // After an UNSAT verdict the SAT engine asks for the conflict and backjumps below its highest literal.
    auto handleUnsat = [&](char const * op, int step) {
        vec<Lit> conflict;
        int maxLevel = 0;
        for (int i = 0; i < trail.size(); ++i) vardata[var(trail[i])].level = i + 1;
        setTickWatch(true);
        th.getConflict(conflict, vardata, maxLevel);
        setTickWatch(false);
        std::string rec = std::string("{\"ev\":\"t-step\",\"i\":") + std::to_string(step) + ",\"op\":\"" + op + "\",\"res\":\"UNSAT\",\"trail\":" + trailJson() + ",\"conflict\":[";
        bool bad = false;
        int highest = -1;
        for (int i = 0; i < conflict.size(); ++i) {
            Lit l = conflict[i];
            int ai = var(l) < nv ? atomIndexOfVar[var(l)] : -1;
            if (i) rec += ",";
            rec += std::to_string(ai < 0 ? 0 : (sign(l) ? -(ai + 1) : (ai + 1)));
            // every conflict literal must be the negation of a literal on the trail
            bool found = false;
            for (int k = 0; k < trail.size(); ++k) {
                if (trail[k] == ~l) { found = true; if (k > highest) highest = k; }
            }
            if (!found) bad = true;
        }
        if (highest < 0) highest = trail.size() - 1;
        rec += std::string("],\"conflict_off_trail\":") + (bad ? "true" : "false") + ",\"after\":" + std::to_string(highest) + "}";
        logRaw(rec);
        popTo(highest);
    };

    Json const & ops = plan["ops"];
    int step = 0;
    try {
    for (auto const & op : ops.arr) {
        ++step;
        std::string kind = op[0].asStr();
        if (kind == "assert") {
            // choose an atom not on the trail, starting from the requested index
            size_t want = (size_t)op[1].asInt() % atoms.size();
            size_t k = want;
            bool found = false;
            for (size_t t = 0; t < atoms.size(); ++t, k = (k + 1) % atoms.size()) {
                if (!onTrail[k]) { found = true; break; }
            }
            if (!found) continue;
            bool neg = op[2].asBool();
            trail.push(mkLit(atoms[k], neg));
            atomOf.push_back((int)k);
            deducedAt.push_back(0);
            onTrail[k] = 1;
            setTickWatch(true);
            bool ok = th.assertLits(trail);
            setTickWatch(false);
            if (!ok) {
                handleUnsat("assert", step);
            } else {
                logRaw("{\"ev\":\"t-step\",\"i\":" + std::to_string(step) + ",\"op\":\"assert\",\"res\":\"OK\",\"trail\":" + trailJson() + "}");
            }
        } else if (kind == "check") {
            bool complete = op[1].asBool();
            setTickWatch(true);
            TRes r = th.check(complete);
            setTickWatch(false);
            if (r == TRes::UNSAT) {
                handleUnsat(complete ? "check-complete" : "check", step);
                continue;
            }
            size_t nsplits = 0;
            if (r == TRes::SAT && complete) {
                setTickWatch(true);
                auto splits = th.getNewSplits();
                setTickWatch(false);
                nsplits = splits.size();
            }
            // deductions the SAT engine would enqueue
            std::string ded = "[";
            std::vector<Lit> deductions;
            int nd = 0;
            if (r == TRes::SAT) {
                while (nd < 64) {
                    setTickWatch(true);
                    Lit d = th.getDeduction();
                    setTickWatch(false);
                    if (d == lit_Undef) break;
                    int ai = var(d) < nv ? atomIndexOfVar[var(d)] : -1;
                    if (nd) ded += ",";
                    ded += std::to_string(ai < 0 ? 0 : (sign(d) ? -(ai + 1) : (ai + 1)));
                    deductions.push_back(d);
                    ++nd;
                }
            }
            ded += "]";
            logRaw("{\"ev\":\"t-step\",\"i\":" + std::to_string(step) + ",\"op\":\"" + (complete ? "check-complete" : "check") + "\",\"res\":\"" +
                   (r == TRes::SAT ? "SAT" : r == TRes::UNKNOWN ? "UNKNOWN" : "UNDEF") + "\",\"splits\":" + std::to_string(nsplits) + ",\"deduced\":" + ded +
                   ",\"trail\":" + trailJson() + "}");
            // The SAT engine enqueues theory deductions (reason = "theory") and hands them back with the next assertLits.
            // The plan says which of them are adopted (bit j of the mask for the j-th deduction).
            long mask = op.arr.size() > 2 ? op[2].asInt() : 0;
            if (mask != 0 && !deductions.empty()) {
                int adopted = 0;
                for (size_t j = 0; j < deductions.size(); ++j) {
                    if (!((mask >> (j % 30)) & 1)) continue;
                    Lit d = deductions[j];
                    int ai = var(d) < nv ? atomIndexOfVar[var(d)] : -1;
                    if (ai < 0 || onTrail[ai]) continue;
                    trail.push(d);
                    atomOf.push_back(ai);
                    deducedAt.push_back(1);
                    onTrail[ai] = 1;
                    ++adopted;
                }
                if (adopted) {
                    setTickWatch(true);
                    bool ok = th.assertLits(trail);
                    setTickWatch(false);
                    if (!ok) {
                        handleUnsat("adopt", step);
                    } else {
                        logRaw("{\"ev\":\"t-step\",\"i\":" + std::to_string(step) + ",\"op\":\"adopt\",\"res\":\"OK\",\"n\":" + std::to_string(adopted) + ",\"trail\":" + trailJson() + "}");
                    }
                }
            }
        } else if (kind == "reason") {
            // What conflict analysis does for a theory-propagated literal (CoreSMTSolver::cancelUntilVarTempInit / getReason /
            // cancelUntilVarTempDone): take the theory back to the trail *before* that literal, ask for the reason, restore.
            std::vector<int> cand;
            for (int i = 0; i < trail.size(); ++i) if (deducedAt[i]) cand.push_back(i);
            if (cand.empty()) continue;
            int pos = cand[(size_t)op[1].asInt() % cand.size()];
            Lit p = trail[pos];
            std::vector<Lit> tailLits; std::vector<int> tailAtoms; std::vector<char> tailDed;
            for (int i = pos; i < trail.size(); ++i) { tailLits.push_back(trail[i]); tailAtoms.push_back(atomOf[i]); tailDed.push_back(deducedAt[i]); }
            std::string before = "";
            popTo(pos);
            before = trailJson();
            vec<Lit> reason;
            setTickWatch(true);
            th.getReason(p, reason);
            setTickWatch(false);
            std::string rec = "{\"ev\":\"t-reason\",\"i\":" + std::to_string(step) + ",\"lit\":" + std::to_string(sign(p) ? -(tailAtoms[0] + 1) : (tailAtoms[0] + 1)) + ",\"prefix\":" + before + ",\"reason\":[";
            bool bad = reason.size() == 0 || reason[0] != p;
            for (int i = 0; i < reason.size(); ++i) {
                Lit l = reason[i];
                int ai = var(l) < nv ? atomIndexOfVar[var(l)] : -1;
                if (i) rec += ",";
                rec += std::to_string(ai < 0 ? 0 : (sign(l) ? -(ai + 1) : (ai + 1)));
                if (i == 0) continue;
                bool found = false;
                for (int k = 0; k < trail.size(); ++k) if (trail[k] == ~l) found = true;
                if (!found) bad = true;
            }
            rec += std::string("],\"off_prefix\":") + (bad ? "true" : "false") + "}";
            logRaw(rec);
            for (size_t i = 0; i < tailLits.size(); ++i) {
                trail.push(tailLits[i]); atomOf.push_back(tailAtoms[i]); deducedAt.push_back(tailDed[i]); onTrail[tailAtoms[i]] = 1;
            }
            setTickWatch(true);
            bool ok = th.assertLits(trail);
            setTickWatch(false);
            if (!ok) {
                handleUnsat("restore", step);
            } else {
                logRaw("{\"ev\":\"t-step\",\"i\":" + std::to_string(step) + ",\"op\":\"restore\",\"res\":\"OK\",\"trail\":" + trailJson() + "}");
            }
        } else if (kind == "backtrack") {
            int n = (int)op[1].asInt();
            if (n > trail.size()) n = trail.size();
            if (n <= 0) continue;
            popTo(trail.size() - n);
            logRaw("{\"ev\":\"t-step\",\"i\":" + std::to_string(step) + ",\"op\":\"backtrack\",\"res\":\"OK\",\"trail\":" + trailJson() + "}");
        }
    }
    } catch (std::exception const & e) {
        // e.g. std::overflow_error from the difference-logic solver: MainSolver::check turns it into "unknown"
        setTickWatch(false);
        logRaw(std::string("{\"ev\":\"t-exception\",\"i\":") + std::to_string(step) + ",\"what\":" + jsonEscape(std::string(typeid(e).name()) + ": " + e.what()) + "}");
    }
    monitorsSummary();
    logRaw("{\"ev\":\"run-end\",\"ticks\":" + std::to_string(task.ticks) + "}");
    return 0;
}

} // namespace osim
