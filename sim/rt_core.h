// Simulator runtime: logical clock (tick hook), baton scheduler, result log, seams state.
// Everything declared here is implemented in rt_*.cc files, which are compiled WITHOUT
// -finstrument-functions (the runtime never ticks) and whose shared state is only touched from
// functions that ThreadSanitizer does not instrument.
#pragma once
#include <cstdint>
#include <string>
#include <vector>

#define OSIM_NOSAN __attribute__((no_sanitize("thread"), noinline, no_instrument_function))
#define OSIM_NOINSTR __attribute__((no_instrument_function))

namespace osim {

// ---------------------------------------------------------------- result log
void logOpen(int fd);
void logRaw(std::string const & jsonObject); // one JSON object per line
int logFd();

// ---------------------------------------------------------------- logical clock
struct Task {
    int id = 0;
    volatile uint64_t ticks = 0;
    volatile int64_t quantum = -1; // ticks left before the scheduler is entered; <0: unlimited
    volatile bool finished = false;
    volatile bool blocked = false;
    volatile void * lastFn = nullptr;
};

Task * currentTask();
void setCurrentTask(Task *);
uint64_t ticksNow();           // ticks of the calling task
void setTickBudget(uint64_t);  // exceeding it: LIVENESS record, _exit(3)
bool setTickWatch(bool on);    // count ticks at all (off while the harness itself runs); returns the previous state
std::string symbolOf(void const * fn); // demangled-ish ELF symbol for a tick's function

// ---------------------------------------------------------------- scheduler (engine M)
struct Quantum {
    int task;
    int64_t ticks; // <0: until the task finishes or blocks
};
void schedInit(std::vector<Task *> const & tasks, std::vector<Quantum> const & plan);
void schedTaskBegin(Task * t); // first thing a task thread does: wait for the baton
void schedTaskEnd(Task * t);   // last thing: mark finished, pass the baton on
void schedRun();               // main thread: hand baton to first task, return when all finished
uint64_t schedSwitches();
std::vector<std::string> schedTrace(); // "from@tick>to:symbol" per switch (call after schedRun)
bool schedDeadlocked();

// ---------------------------------------------------------------- seams
struct StdinPlan {
    bool active = false;
    std::string data;
    std::vector<int> chunks; // successive read sizes; after the list: as much as asked
    long eofAt = -1;         // deliver EOF once this many bytes were served (<0: at end)
    size_t pos = 0;
    size_t chunkIdx = 0;
    uint64_t reads = 0;
    std::vector<long> boundaries; // offsets at which a read ended (for reach probes)
};
StdinPlan & stdinPlan();

struct ClockPlan {
    bool active = false;
    uint64_t nsPerTick = 1000;
    std::vector<std::pair<uint64_t, int64_t>> jumps; // (at tick, add ns)
    uint64_t reads = 0;
};
ClockPlan & clockPlan();

struct RandPlan {
    bool active = false;
    uint64_t state = 1;
    uint64_t calls = 0;
};
RandPlan & randPlan();

void heapLayerConfigure(uint64_t seed, bool enable); // sim flavour only; no-op elsewhere
uint64_t heapLayerAllocs();

} // namespace osim
