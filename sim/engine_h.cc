// Engine H: a history of SMT-LIB commands fed one at a time to the real interpreter, output captured
// per command; optional "fresh" scripts (R-fresh oracle of C04) run afterwards in a second interpreter
// with the same configuration vector.
#include "engines.h"
#include "monitors.h"
#include "rt_core.h"
#include "simengine.h"

#include <iostream>
#include <sstream>

using namespace opensmt;

namespace osim {

Knobs Knobs::fromJson(Json const & j) {
    Knobs k;
    if (j.type != Json::Obj) return k;
    if (j.has("nof_learnts")) k.nof_learnts = j["nof_learnts"].asInt();
    if (j.has("nofLearntsIncrement")) k.nofLearntsIncrement = j["nofLearntsIncrement"].asDouble();
    if (j.has("sat_initial_skip_step")) k.sat_initial_skip_step = j["sat_initial_skip_step"].asDouble();
    if (j.has("sat_skip_step_factor")) k.sat_skip_step_factor = j["sat_skip_step_factor"].asDouble();
    if (j.has("sat_learn_up_to_size")) k.sat_learn_up_to_size = j["sat_learn_up_to_size"].asInt();
    if (j.has("sat_temporary_learn")) k.sat_temporary_learn = j["sat_temporary_learn"].asInt();
    if (j.has("sat_minimize_conflicts")) k.sat_minimize_conflicts = j["sat_minimize_conflicts"].asInt();
    if (j.has("proof_red_time")) k.proof_red_time = j["proof_red_time"].asDouble();
    return k;
}

namespace {

struct CoutCapture {
    std::ostringstream buf;
    std::streambuf * old;
    CoutCapture() : old(std::cout.rdbuf(buf.rdbuf())) {}
    ~CoutCapture() { std::cout.rdbuf(old); }
    std::string take() {
        std::string s = buf.str();
        buf.str("");
        return s;
    }
};

// Runs the commands; returns false if an exception escaped the interpreter (state then undefined).
bool runScript(SimInterpret & interp, Json const & cmds, char const * ev, long tag, uint64_t budget, Task & task) {
    CoutCapture cap;
    for (size_t i = 0; i < cmds.size(); ++i) {
        std::string const & text = cmds[i].asStr();
        std::vector<char> buf(text.begin(), text.end());
        buf.push_back('\0');
        uint64_t t0 = task.ticks;
        setTickBudget(t0 + budget);
        std::string what;
        bool threw = false;
        int rval = 0;
        setTickWatch(true);
        try {
            rval = interp.interpFile(buf.data());
        } catch (std::exception const & e) {
            threw = true;
            what = std::string(typeid(e).name()) + ": " + e.what();
        } catch (...) {
            threw = true;
            what = "unknown exception";
        }
        setTickWatch(false);
        std::string out = cap.take();
        std::string rec = std::string("{\"ev\":\"") + ev + "\",\"i\":" + std::to_string(i);
        if (tag >= 0) rec += ",\"at\":" + std::to_string(tag);
        rec += ",\"out\":" + jsonEscape(out) + ",\"ticks\":" + std::to_string(task.ticks - t0);
        if (rval != 0) rec += ",\"parse_rval\":" + std::to_string(rval);
        if (threw) rec += ",\"exception\":" + jsonEscape(what);
        rec += "}";
        logRaw(rec);
        if (threw) return false;
        if (interp.gotExit()) break;
    }
    return true;
}

} // namespace

int runEngineH(Json const & plan) {
    Task task;
    task.id = 0;
    setCurrentTask(&task);
    uint64_t budget = (uint64_t)plan["budget_ticks"].asInt(20000000);

    Json const & mon = plan["monitors"];
    MonitorConfig mc;
    mc.rup = mon["rup"].asBool();
    mc.tclauses = mon["tclauses"].asBool();
    mc.frames = mon["frames"].asBool();
    mc.farkas = mon["farkas"].asBool();
    if (mon.has("max_tclauses")) mc.maxTClauses = (int)mon["max_tclauses"].asInt();
    mc.dumpDbOnFailure = mon["dump_db"].asBool();
    monitorsInstall(mc, plan["unusual"]);

    if (plan.has("clock")) {
        ClockPlan & cp = clockPlan();
        cp.active = true;
        cp.nsPerTick = (uint64_t)plan["clock"]["ns_per_tick"].asInt(1000);
        for (auto const & j : plan["clock"]["jumps"].arr) cp.jumps.emplace_back((uint64_t)j[0].asInt(), (int64_t)j[1].asInt());
    }
    if (plan.has("rand_seed")) {
        RandPlan & rp = randPlan();
        rp.active = true;
        rp.state = (uint64_t)plan["rand_seed"].asInt(1) | 1;
    }

    Knobs knobs = Knobs::fromJson(plan["knobs"]);
    logRaw("{\"ev\":\"run-begin\",\"engine\":\"H\"}");
    {
        SMTConfig config;
        SimInterpret interp(config, knobs, "main");
        bool ok = runScript(interp, plan["commands"], "cmd", -1, budget, task);
        (void)ok;
        uint64_t mainTicks = task.ticks;
        logRaw("{\"ev\":\"main-end\",\"ticks\":" + std::to_string(mainTicks) + ",\"ok_status\":" + (interp.okStatus() ? "true" : "false") + "}");
    }
    // R-fresh scripts: each in its own interpreter with the same knobs
    Json const & fresh = plan["fresh"];
    for (auto const & f : fresh.arr) {
        SMTConfig config;
        SimInterpret interp(config, knobs, "fresh");
        runScript(interp, f["commands"], "fresh", f["at"].asInt(), budget, task);
    }
    monitorsSummary();
    logRaw("{\"ev\":\"run-end\",\"ticks\":" + std::to_string(task.ticks) + ",\"clock_reads\":" + std::to_string(clockPlan().reads) +
           ",\"rand_calls\":" + std::to_string(randPlan().calls) + "}");
    monitorsUninstall();
    return 0;
}

} // namespace osim
