#include "monitors.h"
#include "rt_core.h"

#include <api/MainSolver.h>
#include <common/VerifSim.h>
#include <common/numbers/Real.h>
#include <logics/ArithLogic.h>
#include <logics/Logic.h>
#include <tsolvers/THandler.h>

#include <gmpxx.h>

#include <map>
#include <set>
#include <sstream>
#include <unordered_map>
#include <unordered_set>

using namespace opensmt;

namespace osim {

namespace {

MonitorConfig g_cfg;
bool g_installed = false;

// ------------------------------------------------------------------ contexts
std::map<Logic const *, int> g_logicIds;
std::map<void const *, int> g_msIds;
std::map<void const *, int> g_thIds;
std::map<int, std::unordered_set<uint32_t>> g_declared; // per logic ctx: SymRef.x already emitted

// Ids are handed out by counters, never derived from addresses or map sizes: an object allocated at the address of a
// destroyed one must get a new identity (otherwise a run would depend on heap layout).
int g_nextMsId = 0, g_nextLogicId = 0, g_nextThId = 0;

int idOf(std::map<void const *, int> & m, void const * p) {
    auto it = m.find(p);
    if (it != m.end()) return it->second;
    int id = g_nextMsId++;
    m[p] = id;
    return id;
}

// ------------------------------------------------------------------ term printer
bool simpleSymbol(std::string const & s) {
    if (s.empty()) return false;
    for (size_t i = 0; i < s.size(); ++i) {
        char c = s[i];
        bool ok = (c >= 'a' && c <= 'z') || (c >= 'A' && c <= 'Z') || c == '_' || (i > 0 && c >= '0' && c <= '9');
        if (!ok) return false;
    }
    return true;
}
// Symbols starting with '.' or '@' are reserved in SMT-LIB (cvc5 refuses to declare them): auxiliary symbols of the
// solver (.ite*, .frame*, .purify_*, .mod_*, ...) are shown to the references under an "aux" prefix.
std::string publicName(std::string const & s) {
    if (!s.empty() && (s[0] == '.' || s[0] == '@')) return "aux" + s;
    return s;
}
std::string quoteSym(std::string const & s0) {
    std::string s = publicName(s0);
    if (simpleSymbol(s)) return s;
    if (s.size() >= 2 && s.front() == '|' && s.back() == '|') return s;
    return "|" + s + "|";
}

std::string numToSmt(std::string const & raw, bool real) {
    // raw: [-]digits[/digits]
    std::string s = raw;
    bool neg = false;
    if (!s.empty() && s[0] == '-') { neg = true; s = s.substr(1); }
    std::string num = s, den;
    size_t slash = s.find('/');
    if (slash != std::string::npos) { num = s.substr(0, slash); den = s.substr(slash + 1); }
    std::string out;
    if (real) {
        out = den.empty() ? num + ".0" : "(/ " + num + ".0 " + den + ".0)";
    } else {
        out = den.empty() ? num : "(/ " + num + " " + den + ")"; // a non-integral Int constant would be a defect; keep it visible
    }
    if (neg) out = "(- " + out + ")";
    return out;
}

struct Printer {
    Logic const & logic;
    ArithLogic const * arith;
    int ctx;
    size_t limit;
    bool tooLarge = false;
    std::string out;

    Printer(Logic const & l, size_t lim) : logic(l), arith(dynamic_cast<ArithLogic const *>(&l)), ctx(logicCtx(l)), limit(lim) {}

    void declare(SymRef sr) {
        auto & seen = g_declared[ctx];
        if (!seen.insert(sr.x).second) return;
        Symbol const & sym = logic.getSym(sr);
        std::string rec = "{\"ev\":\"decl\",\"ctx\":" + std::to_string(ctx) + ",\"name\":" + jsonEscape(publicName(logic.getSymName(sr))) + ",\"args\":[";
        for (unsigned i = 0; i < sym.nargs(); ++i) {
            if (i) rec += ",";
            rec += jsonEscape(logic.sortToString(sym[i]));
        }
        rec += "],\"ret\":" + jsonEscape(logic.sortToString(sym.rsort())) + "}";
        logRaw(rec);
    }

    void pr(PTRef tr) {
        if (tooLarge) return;
        if (out.size() > limit) { tooLarge = true; return; }
        Pterm const & t = logic.getPterm(tr);
        SymRef sr = t.symb();
        if (t.size() == 0) {
            if (logic.isTrue(tr)) { out += "true"; return; }
            if (logic.isFalse(tr)) { out += "false"; return; }
            if (arith && arith->isNumConst(tr)) {
                out += numToSmt(logic.getSymName(tr), arith->isSortReal(logic.getSortRef(tr)));
                return;
            }
            declare(sr);
            out += quoteSym(logic.getSymName(tr));
            return;
        }
        std::string name = logic.getSymName(sr);
        bool interpreted = logic.isInterpreted(sr);
        if (!interpreted) {
            declare(sr);
            name = quoteSym(name);
        }
        out += "(";
        out += name;
        for (int i = 0; i < t.size(); ++i) {
            out += " ";
            pr(t[i]);
        }
        out += ")";
    }
};

} // namespace

int logicCtx(Logic const & logic) {
    auto it = g_logicIds.find(&logic);
    if (it != g_logicIds.end()) return it->second;
    int id = g_nextLogicId++;
    g_logicIds[&logic] = id;
    return id;
}

std::string printTerm(Logic const & logic, uint32_t ptref, bool & tooLarge) {
    Printer p(logic, (size_t)g_cfg.maxTermChars);
    p.pr(PTRef{ptref});
    tooLarge = p.tooLarge;
    return p.out;
}

namespace {

// ------------------------------------------------------------------ RUP checker (R-rup)
struct RupDb {
    std::vector<std::vector<int>> clauses;     // literals as ints: 2*var+sign
    std::vector<std::vector<int>> occ;         // literal -> clause indices
    std::vector<signed char> val;              // per var: 0 undef, 1 true, -1 false
    std::vector<int> trail;
    size_t rootTrail = 0;
    bool rootConflict = false;
    bool inElim = false;
    uint64_t work = 0;
    uint64_t checked = 0, nontrivial = 0, failed = 0, skipped = 0, axioms = 0;

    void ensureVar(int v) {
        if ((size_t)v >= val.size()) {
            val.resize(v + 1, 0);
            occ.resize(2 * (v + 1));
        }
    }
    int litVal(int l) const {
        signed char v = val[l >> 1];
        if (v == 0) return 0;
        return (l & 1) ? -v : v;
    }
    void assign(int l) {
        val[l >> 1] = (l & 1) ? -1 : 1;
        trail.push_back(l);
    }
    // propagate from trail position 'from'; returns true on conflict; counts steps
    bool propagate(size_t from, unsigned & steps) {
        size_t qhead = from;
        while (qhead < trail.size()) {
            int l = trail[qhead++];
            int falsified = l ^ 1;
            for (int ci : occ[falsified]) {
                auto const & c = clauses[ci];
                int unassigned = -1;
                int nUn = 0;
                bool sat = false;
                for (int x : c) {
                    ++work;
                    int v = litVal(x);
                    if (v > 0) { sat = true; break; }
                    if (v == 0) { ++nUn; unassigned = x; if (nUn > 1) break; }
                }
                if (sat || nUn > 1) continue;
                if (nUn == 0) return true;
                assign(unassigned);
                ++steps;
            }
        }
        return false;
    }
    void undoTo(size_t sz) {
        while (trail.size() > sz) {
            val[trail.back() >> 1] = 0;
            trail.pop_back();
        }
    }
    void addClause(std::vector<int> c) {
        for (int l : c) ensureVar(l >> 1);
        // remove duplicates; a tautology is useless but harmless
        std::sort(c.begin(), c.end());
        c.erase(std::unique(c.begin(), c.end()), c.end());
        int idx = (int)clauses.size();
        clauses.push_back(c);
        for (int l : c) occ[l].push_back(idx);
        if (rootConflict) return;
        // root propagation
        int nUn = 0, un = -1;
        bool sat = false;
        for (int l : c) {
            int v = litVal(l);
            if (v > 0) sat = true;
            else if (v == 0) { ++nUn; un = l; }
        }
        if (sat) return;
        unsigned steps = 0;
        if (nUn == 0) { rootConflict = true; return; }
        if (nUn == 1) {
            size_t from = trail.size();
            assign(un);
            if (propagate(from, steps)) rootConflict = true;
            rootTrail = trail.size();
        }
    }
    // returns true if the clause is RUP w.r.t. the database
    bool check(std::vector<int> const & c, unsigned & steps) {
        steps = 0;
        for (int l : c) ensureVar(l >> 1);
        if (rootConflict) return true;
        size_t base = trail.size();
        bool conflict = false;
        for (int l : c) {
            int v = litVal(l);
            if (v > 0) { conflict = true; break; } // literal already true at root: clause implied
            if (v == 0) assign(l ^ 1);
        }
        if (!conflict) conflict = propagate(base, steps);
        undoTo(base);
        return conflict;
    }
};

struct ThCtx {
    int id;
    RupDb rup;
    std::vector<int> rootTrail; // literals of the last CK_TROOTTRAIL
    std::unordered_set<std::string> seenTClauses;
    int loggedTClauses = 0;
    uint64_t droppedTClauses = 0;
    bool pendingInit = false; // the last input clause was the unit {true}
};
std::map<void const *, ThCtx> g_th;
uint64_t g_kindCount[16];

ThCtx & thCtx(void const * th) {
    auto it = g_th.find(th);
    if (it != g_th.end()) return it->second;
    ThCtx & c = g_th[th];
    c.id = g_nextThId++;
    return c;
}

uint64_t g_retiredChecked = 0, g_retiredNontrivial = 0, g_retiredFailed = 0, g_retiredSkipped = 0, g_retiredAxioms = 0, g_retiredDropped = 0, g_retiredLogged = 0;
int g_retiredSolvers = 0;

void retireThCtx(void const * th) {
    auto it = g_th.find(th);
    if (it == g_th.end()) return;
    g_retiredChecked += it->second.rup.checked;
    g_retiredNontrivial += it->second.rup.nontrivial;
    g_retiredFailed += it->second.rup.failed;
    g_retiredSkipped += it->second.rup.skipped;
    g_retiredAxioms += it->second.rup.axioms;
    g_retiredDropped += it->second.droppedTClauses;
    g_retiredLogged += it->second.loggedTClauses;
    ++g_retiredSolvers;
    g_th.erase(it);
}

char const * kindName(int k) {
    switch (k) {
        case verifsim::CK_ORIG: return "orig";
        case verifsim::CK_LEARNT: return "learnt";
        case verifsim::CK_FINAL: return "final";
        case verifsim::CK_TCONFLICT: return "conflict";
        case verifsim::CK_TREASON: return "reason";
        case verifsim::CK_TSPLIT: return "split";
        case verifsim::CK_TROOTDED: return "rootded";
        case verifsim::CK_SPLITUNIT: return "splitunit";
        case verifsim::CK_STRENGTHENED: return "strengthened";
        default: return "other";
    }
}

std::string litText(THandler const & th, Lit l, bool & tooLarge) {
    PTRef tr = th.varToTerm(var(l));
    std::string t = printTerm(th.getLogic(), tr.x, tooLarge);
    return sign(l) ? "(not " + t + ")" : t;
}

void logTheoryClause(ThCtx & ctx, THandler const & th, char const * kind, std::vector<Lit> const & lits) {
    bool tooLarge = false;
    std::vector<std::string> texts;
    for (Lit l : lits) texts.push_back(litText(th, l, tooLarge));
    if (tooLarge) { ++ctx.droppedTClauses; return; }
    std::vector<std::string> sorted = texts;
    std::sort(sorted.begin(), sorted.end());
    std::string key = kind;
    for (auto const & s : sorted) { key += "\x01"; key += s; }
    if (!ctx.seenTClauses.insert(key).second) return;
    if (ctx.loggedTClauses >= g_cfg.maxTClauses) { ++ctx.droppedTClauses; return; }
    ++ctx.loggedTClauses;
    std::string rec = "{\"ev\":\"tclause\",\"th\":" + std::to_string(ctx.id) + ",\"ctx\":" + std::to_string(logicCtx(th.getLogic())) +
                      ",\"kind\":\"" + kind + "\",\"lits\":[";
    for (size_t i = 0; i < texts.size(); ++i) {
        if (i) rec += ",";
        rec += jsonEscape(texts[i]);
    }
    rec += "]}";
    logRaw(rec);
}

void clauseHook(void const * thp, int kind, void const * litsp, int n) {
    bool const watch = setTickWatch(false); // the monitor's own work is not simulated time
    THandler const & th = *static_cast<THandler const *>(thp);
    Lit const * lits = static_cast<Lit const *>(litsp);
    // MainSolver::initialize() starts every SAT engine with the unit clause {true}: if a context already exists for this
    // THandler address, it belongs to a destroyed solver that lived at the same address (e.g. the internal solver of
    // unsat-core minimisation) and must not be mixed with the new one.
    // MainSolver::initialize() starts every SAT engine with the unit clauses {true} and {not false}, in this order and with
    // nothing in between (an asserted "true" can produce the first one again, but never the pair).
    if (kind == verifsim::CK_ORIG) {
        auto it = g_th.find(thp);
        if (it != g_th.end() && !it->second.rup.clauses.empty()) {
            bool isTrueUnit = n == 1 && var(lits[0]) == 0 && !sign(lits[0]);
            bool isNotFalseUnit = n == 1 && var(lits[0]) == 1 && sign(lits[0]);
            if (it->second.pendingInit && isNotFalseUnit) {
                retireThCtx(thp);
                ThCtx & fresh = thCtx(thp);
                fresh.rup.addClause({toInt(mkLit(0, false))});
                ++fresh.rup.axioms;
            } else {
                it->second.pendingInit = isTrueUnit;
            }
        }
    }
    ThCtx & ctx = thCtx(thp);
    if (kind >= 0 && kind < 16) ++g_kindCount[kind];
    std::vector<Lit> lv(lits, lits + (n > 0 ? n : 0));

    if (kind == verifsim::CK_ELIM_BEGIN) { ctx.rup.inElim = true; setTickWatch(watch); return; }
    if (kind == verifsim::CK_ELIM_END) { ctx.rup.inElim = false; setTickWatch(watch); return; }
    if (kind == verifsim::CK_TROOTTRAIL) {
        ctx.rootTrail.clear();
        for (Lit l : lv) ctx.rootTrail.push_back(toInt(l));
        setTickWatch(watch);
        return;
    }

    bool isTheory = kind == verifsim::CK_TCONFLICT || kind == verifsim::CK_TREASON || kind == verifsim::CK_TSPLIT ||
                    kind == verifsim::CK_TROOTDED;
    if (g_cfg.tclauses && isTheory) {
        if (kind == verifsim::CK_TROOTDED) {
            // clause: (not p1) ... (not pk) l  for the theory literals p_i on the level-0 trail
            std::vector<Lit> cl;
            Logic const & logic = th.getLogic();
            for (int li : ctx.rootTrail) {
                Lit p = toLit(li);
                PTRef tr = th.varToTerm(var(p));
                if (tr == logic.getTerm_true() || tr == logic.getTerm_false()) continue;
                if (!logic.isTheoryTerm(tr)) continue;
                if (var(p) == var(lv[0])) continue;
                cl.push_back(~p);
            }
            cl.push_back(lv[0]);
            logTheoryClause(ctx, th, "rootded", cl);
        } else {
            logTheoryClause(ctx, th, kindName(kind), lv);
        }
    }

    if (g_cfg.rup) {
        std::vector<int> c;
        for (Lit l : lv) c.push_back(toInt(l));
        bool derived = kind == verifsim::CK_LEARNT || kind == verifsim::CK_FINAL || kind == verifsim::CK_SPLITUNIT ||
                       kind == verifsim::CK_STRENGTHENED || (kind == verifsim::CK_ORIG && ctx.rup.inElim);
        if (derived) {
            if (ctx.rup.work > g_cfg.rupWorkBudget) {
                ++ctx.rup.skipped;
            } else {
                unsigned steps = 0;
                bool ok = ctx.rup.check(c, steps);
                ++ctx.rup.checked;
                if (steps >= 2) ++ctx.rup.nontrivial;
                if (!ok) {
                    ++ctx.rup.failed;
                    if (ctx.rup.failed <= 5) {
                        bool tl = false;
                        std::string rec = "{\"ev\":\"clause-violation\",\"th\":" + std::to_string(ctx.id) + ",\"kind\":\"" +
                                          (kind == verifsim::CK_ORIG ? "resolvent" : kindName(kind)) + "\",\"ints\":[";
                        for (size_t i = 0; i < c.size(); ++i) { if (i) rec += ","; rec += std::to_string(c[i]); }
                        rec += "],\"lits\":[";
                        for (size_t i = 0; i < lv.size(); ++i) { if (i) rec += ","; rec += jsonEscape(litText(th, lv[i], tl)); }
                        rec += "],\"db\":" + std::to_string(ctx.rup.clauses.size());
                        if (g_cfg.dumpDbOnFailure && ctx.rup.clauses.size() <= 400) {
                            rec += ",\"clauses\":[";
                            for (size_t ci = 0; ci < ctx.rup.clauses.size(); ++ci) {
                                if (ci) rec += ",";
                                rec += "[";
                                for (size_t k = 0; k < ctx.rup.clauses[ci].size(); ++k) { if (k) rec += ","; rec += std::to_string(ctx.rup.clauses[ci][k]); }
                                rec += "]";
                            }
                            rec += "]";
                        }
                        rec += "}";
                        logRaw(rec);
                    }
                }
            }
            // a learnt / derived clause joins the database only after it was checked
            if (kind != verifsim::CK_FINAL) ctx.rup.addClause(c);
        } else {
            ++ctx.rup.axioms;
            ctx.rup.addClause(c);
        }
    }
    setTickWatch(watch);
}

// ------------------------------------------------------------------ frames (C13)
void frameHook(void const * msp, int kind, unsigned frame, unsigned term) {
    if (!g_cfg.frames) return;
    bool const watch = setTickWatch(false);
    MainSolver const & ms = *static_cast<MainSolver const *>(msp);
    int id = idOf(g_msIds, msp);
    char const * k = kind == verifsim::FK_SIMPLIFY_BEGIN ? "begin" : kind == verifsim::FK_ASSERTED ? "asserted" : kind == verifsim::FK_ROOT ? "root" : "end";
    std::string rec = "{\"ev\":\"frame\",\"ms\":" + std::to_string(id) + ",\"ctx\":" + std::to_string(logicCtx(ms.getLogic())) + ",\"k\":\"" + k +
                      "\",\"frame\":" + std::to_string(frame);
    if (kind == verifsim::FK_ASSERTED || kind == verifsim::FK_ROOT) {
        bool tooLarge = false;
        std::string t = printTerm(ms.getLogic(), term, tooLarge);
        if (tooLarge) rec += ",\"toolarge\":true";
        else rec += ",\"t\":" + jsonEscape(t);
    }
    rec += "}";
    logRaw(rec);
    setTickWatch(watch);
}

// ------------------------------------------------------------------ Farkas (C26)
using Lin = std::map<uint32_t, mpq_class>; // PTRef.x of opaque variable -> coefficient; key 0xFFFFFFFF = constant
constexpr uint32_t CONSTKEY = 0xFFFFFFFFu;

mpq_class parseNum(std::string const & s) {
    mpq_class q(s);
    q.canonicalize();
    return q;
}

bool linearize(ArithLogic const & logic, PTRef tr, mpq_class const & scale, Lin & out) {
    Pterm const & t = logic.getPterm(tr);
    if (logic.isNumConst(tr)) {
        out[CONSTKEY] += scale * parseNum(logic.getSymName(tr));
        return true;
    }
    if (logic.isPlus(tr)) {
        for (int i = 0; i < t.size(); ++i)
            if (!linearize(logic, t[i], scale, out)) return false;
        return true;
    }
    if (logic.isTimes(tr)) {
        // exactly one non-constant factor
        mpq_class c = 1;
        PTRef var = PTRef_Undef;
        for (int i = 0; i < t.size(); ++i) {
            if (logic.isNumConst(t[i])) c *= parseNum(logic.getSymName(t[i]));
            else if (var == PTRef_Undef) var = t[i];
            else return false;
        }
        if (var == PTRef_Undef) { out[CONSTKEY] += scale * c; return true; }
        return linearize(logic, var, scale * c, out);
    }
    if (logic.isNeg(tr)) return linearize(logic, t[0], -scale, out);
    if (logic.isMinus(t.symb())) {
        if (t.size() == 1) return linearize(logic, t[0], -scale, out);
        if (!linearize(logic, t[0], scale, out)) return false;
        for (int i = 1; i < t.size(); ++i)
            if (!linearize(logic, t[i], -scale, out)) return false;
        return true;
    }
    out[tr.x] += scale; // opaque: variable, ite, UF application, div/mod auxiliary, ...
    return true;
}

uint64_t g_laConflicts = 0, g_laNontrivial = 0, g_laViolations = 0, g_laUnparsable = 0;

void laConflictHook(void const * logicp, void const * explp, void const * coeffsp) {
    if (!g_cfg.farkas) return;
    bool const watch = setTickWatch(false);
    ArithLogic const & logic = *static_cast<ArithLogic const *>(logicp);
    vec<PtAsgn> const & expl = *static_cast<vec<PtAsgn> const *>(explp);
    std::vector<Real> const & coeffs = *static_cast<std::vector<Real> const *>(coeffsp);
    ++g_laConflicts;
    if (expl.size() >= 2) ++g_laNontrivial;
    std::string cls;
    Lin sum;
    bool strict = false;
    if ((size_t)expl.size() != coeffs.size()) cls = "farkas-size-mismatch";
    for (int i = 0; cls.empty() && i < expl.size(); ++i) {
        mpq_class lambda = parseNum(coeffs[i].get_str());
        if (sgn(lambda) <= 0) { cls = "farkas-nonpositive-coefficient"; break; }
        PTRef atom = expl[i].tr;
        if (!logic.isLeq(atom)) { cls = "farkas-unparsable"; break; }
        Pterm const & a = logic.getPterm(atom);
        // atom: (<= a0 a1). true:  a1 - a0 >= 0.  false: a0 - a1 > 0 ; over Int: a0 - a1 - 1 >= 0
        Lin e;
        bool ok = true;
        bool isInt = logic.isSortInt(logic.getSortRef(a[0]));
        if (expl[i].sgn == l_True) {
            ok = linearize(logic, a[1], 1, e) && linearize(logic, a[0], -1, e);
        } else {
            ok = linearize(logic, a[0], 1, e) && linearize(logic, a[1], -1, e);
            if (isInt) {
                // integer-valued difference d > 0  <=>  d >= 1 provided all coefficients and the constant are integral
                bool integral = true;
                for (auto const & kv : e)
                    if (kv.second.get_den() != 1) integral = false;
                if (integral) e[CONSTKEY] -= 1;
                else strict = true;
            } else {
                strict = true;
            }
        }
        if (!ok) { cls = "farkas-unparsable"; break; }
        for (auto const & kv : e) sum[kv.first] += lambda * kv.second;
    }
    if (cls.empty()) {
        for (auto const & kv : sum) {
            if (kv.first != CONSTKEY && sgn(kv.second) != 0) { cls = "farkas-variables-not-cancelled"; break; }
        }
    }
    if (cls.empty()) {
        // sum is: const >= 0 (or > 0 when a strict bound took part). It must be false.
        mpq_class c = sum.count(CONSTKEY) ? sum[CONSTKEY] : mpq_class(0);
        bool isFalse = strict ? sgn(c) <= 0 : sgn(c) < 0;
        if (!isFalse) cls = "farkas-not-false";
    }
    if (cls == "farkas-unparsable") {
        ++g_laUnparsable;
    } else if (!cls.empty()) {
        ++g_laViolations;
        if (g_laViolations <= 5) {
            std::string rec = "{\"ev\":\"farkas-violation\",\"class\":\"" + cls + "\",\"ctx\":" + std::to_string(logicCtx(logic)) + ",\"lits\":[";
            for (int i = 0; i < expl.size(); ++i) {
                bool tl = false;
                std::string t = printTerm(logic, expl[i].tr.x, tl);
                if (expl[i].sgn == l_False) t = "(not " + t + ")";
                if (i) rec += ",";
                rec += jsonEscape(t);
            }
            rec += "],\"coeffs\":[";
            for (size_t i = 0; i < coeffs.size(); ++i) {
                if (i) rec += ",";
                rec += jsonEscape(coeffs[i].get_str());
            }
            rec += "]}";
            logRaw(rec);
        }
    }
    setTickWatch(watch);
}

// ------------------------------------------------------------------ unusual (N8)
struct SitePlan {
    std::vector<int> seq; // per occurrence: -1 default, 0, 1
    uint64_t occurrences = 0;
    uint64_t taken = 0;
    uint64_t forcedOff = 0;
};
SitePlan g_sites[4];

int unusualHook(int site) {
    if (site < 0 || site >= 4) return -1;
    SitePlan & sp = g_sites[site];
    uint64_t k = sp.occurrences++;
    int r = k < sp.seq.size() ? sp.seq[k] : -1;
    if (r == 1) ++sp.taken;
    if (r == 0) ++sp.forcedOff;
    return r;
}

} // namespace

void monitorsInstall(MonitorConfig const & cfg, Json const & unusualPlan) {
    g_cfg = cfg;
    g_installed = true;
    for (auto & s : g_sites) s = SitePlan();
    char const * names[2] = {"BLAND", "CUT"};
    for (int i = 0; i < 2; ++i) {
        Json const & seq = unusualPlan[names[i]];
        if (seq.type == Json::Arr)
            for (auto const & v : seq.arr) g_sites[i].seq.push_back((int)v.asInt(-1));
    }
    verifsim::hooks.clause = (cfg.rup || cfg.tclauses) ? clauseHook : nullptr;
    verifsim::hooks.frame = cfg.frames ? frameHook : nullptr;
    verifsim::hooks.laConflict = cfg.farkas ? laConflictHook : nullptr;
    verifsim::hooks.unusual = unusualHook;
}

void monitorsUninstall() {
    verifsim::hooks = verifsim::Hooks();
    g_installed = false;
}

void monitorsRegisterMainSolver(MainSolver const * ms, char const * role) {
    bool const watch = setTickWatch(false);
    // a registered solver is new by definition: fresh ids for it, its logic and its theory handler
    g_msIds.erase(ms);
    auto lit = g_logicIds.find(&ms->getLogic());
    if (lit != g_logicIds.end()) {
        g_declared.erase(lit->second);
        g_logicIds.erase(lit);
    }
    // (the theory-handler context needs no reset here: the solver's constructor has already traced its two initial
    //  clauses, and a context left behind by a destroyed solver at the same address is retired by the clause hook)
    int id = idOf(g_msIds, ms);
    logRaw("{\"ev\":\"ms\",\"id\":" + std::to_string(id) + ",\"role\":\"" + role + "\",\"ctx\":" + std::to_string(logicCtx(ms->getLogic())) + "}");
    setTickWatch(watch);
}

void monitorsSummary() {
    if (!g_installed) return;
    std::string rec = "{\"ev\":\"monitors\"";
    uint64_t checked = g_retiredChecked, nontriv = g_retiredNontrivial, failed = g_retiredFailed, skipped = g_retiredSkipped, axioms = g_retiredAxioms,
             dropped = g_retiredDropped, logged = g_retiredLogged;
    for (auto const & kv : g_th) {
        checked += kv.second.rup.checked;
        nontriv += kv.second.rup.nontrivial;
        failed += kv.second.rup.failed;
        skipped += kv.second.rup.skipped;
        axioms += kv.second.rup.axioms;
        dropped += kv.second.droppedTClauses;
        logged += kv.second.loggedTClauses;
    }
    rec += ",\"rup_checked\":" + std::to_string(checked) + ",\"rup_nontrivial\":" + std::to_string(nontriv) + ",\"rup_failed\":" + std::to_string(failed) +
           ",\"rup_skipped\":" + std::to_string(skipped) + ",\"rup_axioms\":" + std::to_string(axioms) + ",\"solvers\":" + std::to_string(g_th.size() + g_retiredSolvers) +
           ",\"tclauses_logged\":" + std::to_string(logged) + ",\"tclauses_dropped\":" + std::to_string(dropped) +
           ",\"la_conflicts\":" + std::to_string(g_laConflicts) + ",\"la_nontrivial\":" + std::to_string(g_laNontrivial) +
           ",\"la_violations\":" + std::to_string(g_laViolations) + ",\"la_unparsable\":" + std::to_string(g_laUnparsable);
    rec += ",\"kinds\":{";
    bool first = true;
    for (int k = 0; k < 12; ++k) {
        if (!g_kindCount[k]) continue;
        if (!first) rec += ",";
        first = false;
        char const * nm = k == verifsim::CK_ELIM_BEGIN ? "elim" : k == verifsim::CK_ELIM_END ? "elim_end" : k == verifsim::CK_TROOTTRAIL ? "roottrail" : kindName(k);
        rec += std::string("\"") + nm + "\":" + std::to_string(g_kindCount[k]);
    }
    rec += "},\"unusual\":{";
    char const * names[2] = {"BLAND", "CUT"};
    for (int i = 0; i < 2; ++i) {
        if (i) rec += ",";
        rec += std::string("\"") + names[i] + "\":{\"occ\":" + std::to_string(g_sites[i].occurrences) + ",\"taken\":" + std::to_string(g_sites[i].taken) +
               ",\"off\":" + std::to_string(g_sites[i].forcedOff) + "}";
    }
    rec += "}}";
    logRaw(rec);
}

} // namespace osim
