// Hook sinks: clause trace + online RUP check (C12), theory-clause trace (C11), frame trace (C13),
// Farkas certificate check (C26), buggify decisions (N8).
#pragma once
#include "json.h"

#include <cstdint>
#include <string>

namespace opensmt {
class Logic;
class MainSolver;
} // namespace opensmt

namespace osim {

struct MonitorConfig {
    bool rup = false;
    bool tclauses = false;
    bool frames = false;
    bool farkas = false;
    int maxTClauses = 600;       // distinct theory clauses logged per run
    int maxTermChars = 60000;    // a printed term longer than this is logged as too large
    uint64_t rupWorkBudget = 400000000ull;
    bool dumpDbOnFailure = false;
};

void monitorsInstall(MonitorConfig const & cfg, Json const & unusualPlan);
void monitorsUninstall();
void monitorsSummary(); // writes probe / counter records to the result log
void monitorsRegisterMainSolver(opensmt::MainSolver const * ms, char const * role);

// The simulator's own term printer (independent of Logic::termToSMT2String). Emits "decl" records
// for every uninterpreted symbol it meets, once per (logic, symbol).
std::string printTerm(opensmt::Logic const & logic, uint32_t ptref, bool & tooLarge);
int logicCtx(opensmt::Logic const & logic);

} // namespace osim
