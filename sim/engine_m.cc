// Engine M: several independent (Logic, SMTConfig, MainSolver) instances on real threads that hold a baton;
// the seeded schedule decides who runs and for how many logical ticks; stopper tasks deliver notifyStop /
// notifyGlobalStop from another thread at a chosen tick. API level only: no Interpret, no std::cout.
#include "engines.h"
#include "rt_core.h"
#include "simengine.h"
#include "apiload.h"

#include <api/GlobalStop.h>
#include <logics/ArithLogic.h>
#include <logics/LogicFactory.h>

#include <memory>
#include <thread>

using namespace opensmt;

namespace osim {

namespace {

struct TaskState {
    Task task;
    Json const * spec = nullptr;
    Instance inst;
    int result = 99; // sstat value; 99: did not finish
    uint64_t checkBegin = 0, checkEnd = 0;
    bool buildInThread = true;
    std::string error;
    // stopper
    TaskState * target = nullptr;
    bool global = false;
    uint64_t deliveredAtTargetTick = 0;
    bool delivered = false;
};

void solveBody(TaskState * ts) {
    schedTaskBegin(&ts->task);
    try {
        if (ts->buildInThread) ts->inst.build(*ts->spec);
        ts->checkBegin = ts->task.ticks;
        sstat r = ts->inst.solver->check();
        ts->checkEnd = ts->task.ticks;
        ts->result = r == s_True ? 1 : r == s_False ? -1 : r == s_Undef ? 0 : 2;
    } catch (std::exception const & e) {
        ts->error = std::string(typeid(e).name()) + ": " + e.what();
    } catch (...) {
        ts->error = "unknown exception";
    }
    schedTaskEnd(&ts->task);
}

void stopBody(TaskState * ts) {
    schedTaskBegin(&ts->task);
    ts->deliveredAtTargetTick = ts->target->task.ticks;
    ts->delivered = true;
    if (ts->global) notifyGlobalStop();
    else ts->target->inst.solver->notifyStop();
    schedTaskEnd(&ts->task);
}

} // namespace

int runEngineM(Json const & plan) {
    setTickBudget((uint64_t)plan["budget_ticks"].asInt(400000000));
    Json const & tasks = plan["tasks"];
    size_t n = tasks.size();
    std::vector<std::unique_ptr<TaskState>> st;
    for (size_t i = 0; i < n; ++i) {
        st.emplace_back(new TaskState());
        st[i]->task.id = (int)i;
        st[i]->spec = &tasks[i];
    }
    bool buildInThread = plan["build_in_thread"].asBool(true);
    logRaw("{\"ev\":\"run-begin\",\"engine\":\"M\",\"tasks\":" + std::to_string(n) + "}");
    for (size_t i = 0; i < n; ++i) {
        std::string kind = tasks[i]["kind"].strOr("solve");
        if (kind == "solve") {
            st[i]->buildInThread = buildInThread;
            if (!buildInThread) {
                try {
                    st[i]->inst.build(tasks[i]);
                } catch (std::exception const & e) {
                    logRaw(std::string("{\"ev\":\"build-error\",\"task\":") + std::to_string(i) + ",\"what\":" + jsonEscape(e.what()) + "}");
                    return 8;
                }
            }
        } else {
            st[i]->target = st.at((size_t)tasks[i]["target"].asInt()).get();
            st[i]->global = tasks[i]["scope"].strOr("local") == "global";
        }
    }
    std::vector<Task *> tptrs;
    for (auto & s : st) tptrs.push_back(&s->task);
    std::vector<Quantum> sched;
    for (auto const & q : plan["schedule"].arr) {
        int64_t t = q[1].asInt();
        if (t == 0) t = 1;
        sched.push_back(Quantum{(int)q[0].asInt(), t});
    }
    schedInit(tptrs, sched);
    std::vector<std::thread> threads;
    for (size_t i = 0; i < n; ++i) {
        if (tasks[i]["kind"].strOr("solve") == "solve") threads.emplace_back(solveBody, st[i].get());
        else threads.emplace_back(stopBody, st[i].get());
    }
    setTickWatch(true);
    schedRun();
    setTickWatch(false);
    for (auto & t : threads) t.join();
    for (size_t i = 0; i < n; ++i) {
        TaskState & s = *st[i];
        std::string rec = "{\"ev\":\"task\",\"id\":" + std::to_string(i) + ",\"kind\":\"" + tasks[i]["kind"].strOr("solve") + "\"";
        if (s.target) {
            rec += std::string(",\"delivered\":") + (s.delivered ? "true" : "false") + ",\"at_target_tick\":" + std::to_string(s.deliveredAtTargetTick) +
                   ",\"target_check_begin\":" + std::to_string(s.target->checkBegin) + ",\"target_check_end\":" + std::to_string(s.target->checkEnd) +
                   ",\"target_fn\":" + jsonEscape(s.target->task.lastFn ? "" : "");
        } else {
            rec += ",\"result\":" + std::to_string(s.result) + ",\"ticks\":" + std::to_string(s.task.ticks) + ",\"check_begin\":" + std::to_string(s.checkBegin) +
                   ",\"check_end\":" + std::to_string(s.checkEnd);
            if (!s.error.empty()) rec += ",\"exception\":" + jsonEscape(s.error);
        }
        rec += "}";
        logRaw(rec);
    }
    std::string tr = "{\"ev\":\"sched\",\"switches\":" + std::to_string(schedSwitches()) + ",\"trace\":[";
    auto trace = schedTrace();
    for (size_t i = 0; i < trace.size() && i < 400; ++i) {
        if (i) tr += ",";
        tr += jsonEscape(trace[i]);
    }
    tr += "]}";
    logRaw(tr);
    logRaw("{\"ev\":\"run-end\"}");
    return 0;
}

} // namespace osim
