#include "engines.h"
#include "rt_core.h"
namespace osim {
int runEngineM(Json const &) { logRaw("{\"ev\":\"harness-error\",\"what\":\"engine M not built\"}"); return 9; }
}
