#!/bin/bash
# tools/prep_agent_wt.sh C02 b   -> creates /tmp/wt/C02-b with PROPERTY.json (only that property's text) and TASK.md
set -eu
P="$1"; S="$2"; WT="/tmp/wt/$P-$S"
/verif/tools/mk_worktree.sh "$WT"
python3 - "$P" "$WT" <<'PY'
import json,sys
pid,wt=sys.argv[1],sys.argv[2]
for l in open('/verif/properties.jsonl'):
    p=json.loads(l)
    if p['id']==pid:
        p.pop('added_in_round',None); p.pop('source',None)
        json.dump(p,open(wt+'/PROPERTY.json','w'),indent=1)
PY
cat > "$WT/TASK.md" <<'MD'
# Task: a subtle change to OpenSMT that breaks one stated property

You are working in this directory only: a scratch git worktree of OpenSMT2 (a C++ SMT solver). It is already
configured and built in `_build/` (`_build/opensmt` is the executable, `_build/lib` the libraries, unit tests under
`_build/test`). Do not read or write anything under /repo or /verif; do not commit anything.

`PROPERTY.json` in this directory states a semantic property users of OpenSMT rely on (statement, quantifier,
code anchors, mechanisms). Produce **one realistic source change under `src/`** (the kind of slip or
"optimisation" a maintainer could plausibly make: a few lines) such that

1. the tree still compiles: `export CCACHE_DIR=/var/tmp/wt-ccache CCACHE_NOHASHDIR=1 CCACHE_BASEDIR=$PWD; cmake --build _build -j8`
2. the existing test suite still passes entirely: `ctest --test-dir _build -j8 --timeout 900` (314 entries, takes seconds),
3. the property in PROPERTY.json is violated by the changed code, and
4. the violation **needs something specific to manifest** - a particular interleaving, a fault/stop/EOF at a
   particular point, a multi-step sequence of operations (push/pop histories, queries between checks), an unusual
   input shape, a particular option combination or internal event (restart, clause-database reduction, garbage
   collection, backtrack at a certain moment), or two cooperating sites that each look fine alone. It must NOT be
   something any ordinary use exposes at once (e.g. not "every unsat becomes sat"); ordinary scripts from
   `regression/` should mostly still behave. But it must be a real, reproducible violation, not a theoretical one.

Deliver, in a new directory `mutant/` inside this worktree:

* `mutant/patch.diff` - output of `git diff -- src` (must apply to the pristine tree with `git apply`),
* `mutant/demo.sh` plus whatever input files / small programs it needs (all inside `mutant/`): a demonstration that
  is run from the worktree root as `bash mutant/demo.sh`, uses the binaries/libraries in `./_build`, and
  **exits 0 when the property holds (pristine tree) and non-zero when it is violated (changed tree)**. If it needs a
  small C++ program against the library, compile it inside demo.sh (g++ -std=c++20 -I src -I _build/src ... -L _build/lib -lopensmt -lgmpxx -lgmp, with
  LD_LIBRARY_PATH=_build/lib). z3 is available on PATH (`z3 -in`/file) if you want an independent judge.
* `mutant/notes.md` - what the change is, which mechanism of the property it breaks, exactly what is needed for it to
  manifest, and what you ran (build, ctest result with the change, demo with and without the change).

Verify all of it yourself before finishing: build with the change, run ctest (must be 100% pass), run the demo
(must fail); then `git apply -R mutant/patch.diff` (never use `git stash`: the stash is shared with other worktrees), rebuild, run the demo (must pass), `git apply mutant/patch.diff`, rebuild. Leave the change
applied in the working tree when you finish. Keep build parallelism at -j8. Always put a `timeout` on anything
that might hang. Your final message should be a 5-10 line summary: files changed, what is needed to manifest, and
the verification results.
MD
echo "$WT"
