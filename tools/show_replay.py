import os,sys
sys.path.insert(0, os.path.dirname(os.path.dirname(os.path.abspath(__file__))))
import json,sys
r=json.load(open(sys.argv[1]))
print(r['cls'], r['sig']); print(json.dumps(r['detail'])[:1500])
c=r['case']
print({k:v for k,v in c.items() if k not in ('hist','fresh')})
from ctl import hist
if 'hist' in c:
    print('\n'.join(hist.script_lines(c['hist'], c['options'], c.get('logic'))))
