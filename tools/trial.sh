#!/bin/bash
# Run checks against a seeded change WITHOUT touching /repo or /verif/build: a scratch copy of /verif (committed + working
# files, no build output) under /var/tmp/trial/verif builds a scratch worktree of /repo (/var/tmp/trial/repo) with the
# change applied.      tools/trial.sh seeded/C03-b [--budget S] [--tier quick|thorough] C03 C04 ...
# Appends the outcome to seeded/<id>/meta.json (checks_run).  Remove /var/tmp/trial when done (tools/trial.sh --clean).
set -u
T=${TRIAL_DIR:-/var/tmp/trial}
if [ "${1:-}" = "--clean" ]; then git -C /repo worktree remove --force $T/repo 2>/dev/null; rm -rf $T; git -C /repo worktree prune; exit 0; fi
D="$(realpath "$1")"; ID="$(basename "$D")"; shift
BUDGET=""; TIER=quick
while [ "${1:0:2}" = "--" ]; do case "$1" in --budget) BUDGET="$2"; shift 2;; --tier) TIER="$2"; shift 2;; *) echo "bad option $1"; exit 2;; esac; done
mkdir -p $T
[ -d $T/repo ] || git -C /repo worktree add --detach $T/repo HEAD > /dev/null 2>&1
git -C $T/repo checkout -q --detach "$(git -C /repo rev-parse HEAD)" && git -C $T/repo checkout -q -- . && git -C $T/repo clean -fdq -- src
rsync -a --delete --exclude build --exclude replays --exclude .git --exclude __pycache__ /verif/ $T/verif/
mkdir -p $T/verif/build $T/verif/replays; [ -e $T/verif/build/ccache ] || ln -s /verif/build/ccache $T/verif/build/ccache
git -C $T/repo apply "$D/patch.diff" || { echo "patch does not apply to /repo HEAD"; exit 2; }
cd $T/verif
export VERIF_REPO=$T/repo VERIF_EVIDENCE_DIR=$T/evidence
RES=""
for c in "$@"; do
  if [ -n "$BUDGET" ]; then out=$(./check "$c" --tier $TIER --budget "$BUDGET" 2>&1); code=$?; else out=$(./check "$c" --tier $TIER 2>&1); code=$?; fi
  echo "== $ID $c exit=$code"
  echo "$out" | grep -E "VIOLATION|class=|HARNESS|tier=" | cut -c1-260
  cls=$(echo "$out" | grep -E "^  class=" | head -1 | sed 's/^  class=\([^ ]*\).*/\1/')
  runs=$(echo "$out" | grep -oE "runs=[0-9]+" | head -1)
  RES="$RES$c:$code:$cls:$runs:$TIER:$BUDGET;"
done
git -C $T/repo checkout -q -- .
python3 - "$D/meta.json" "$RES" <<'PY'
import json,sys
p,res=sys.argv[1],sys.argv[2]
m=json.load(open(p))
cr=m.setdefault('checks_run',{})
for item in res.split(';'):
    if not item: continue
    c,code,cls,runs,tier,budget=item.split(':')
    cr[c if tier=='quick' else c+'@'+tier]={'cmd':('./check %s --tier %s'%(c,tier))+((' --budget %s'%budget) if budget else '')+' (change applied to a scratch worktree, tools/trial.sh)','exit':int(code),
           'detected':code=='1','first_violation_class':cls or None,'runs':runs}
json.dump(m,open(p,'w'),indent=1)
PY
