"""Maintenance tool (never run by a check): turn a replay file into the replay of an open known finding.
   python3-vt tools/adopt_known.py <known-id> <replay.json>
Re-runs the case, requires that the violation it shows matches the known finding, and writes replays/known/<name>.json."""
import json
import os
import sys
sys.path.insert(0, os.path.dirname(os.path.dirname(os.path.abspath(__file__))))
from ctl import main as M, runner

kid, src = sys.argv[1], sys.argv[2]
known = runner.load_known()
k = next(e for e in known['open'] if e['id'] == kid)
rec = json.load(open(src))
chk = M.registry()[k['property']]()
ctx = runner.Ctx()
try:
    fin = chk.run_case(ctx, rec['case'])
finally:
    ctx.close()
vv = next((v for v in fin['violations'] if runner.match_known({'open': [k]}, k['property'], v)), None)
if vv is None:
    print('NO MATCH', kid, [(v['cls'], v.get('sig')) for v in fin['violations']])
    sys.exit(1)
ok, why = runner.gate(chk, rec['case'], vv['cls'], vv.get('sig'))
print(kid, 'gate', ok, why, vv['cls'], vv.get('sig'))
path = os.path.join(runner.VERIF, k['replay'])
json.dump({'property': k['property'], 'check': k['property'], 'cls': vv['cls'], 'sig': vv.get('sig'), 'detail': vv.get('detail'), 'seed': rec.get('seed'), 'idx': rec.get('idx'),
           'known_id': kid, 'hash': fin.get('hash'), 'case': rec['case']}, open(path, 'w'), indent=1)
