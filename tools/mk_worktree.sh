#!/bin/bash
# Create a scratch git worktree of /repo (HEAD, detached) with a configured and built _build, for a sub-agent
# or for confirming a seeded change.   tools/mk_worktree.sh /tmp/wt/C02-a
# Remove afterwards with:  git -C /repo worktree remove --force <dir>
set -eu
WT="$1"
mkdir -p "$(dirname "$WT")"
git -C /repo worktree add --detach "$WT" HEAD > /dev/null
cd "$WT"
export CCACHE_DIR=/var/tmp/wt-ccache CCACHE_NOHASHDIR=1 CCACHE_BASEDIR="$WT"
cmake -G Ninja -S . -B _build -DCMAKE_BUILD_TYPE=RelWithDebInfo -DCMAKE_CXX_FLAGS=-Wno-error \
  -DCMAKE_CXX_COMPILER_LAUNCHER=ccache \
  -DFETCHCONTENT_FULLY_DISCONNECTED=ON -DFETCHCONTENT_SOURCE_DIR_GOOGLETEST=/usr/src/googletest > _build.cmake.log 2>&1
cmake --build _build -j "${JOBS:-16}" > _build.build.log 2>&1
echo "worktree ready: $WT"
