#!/usr/bin/env python3-vt
"""Run one hand-written SMT-LIB script through the oracle of an engine-H check (maintenance tool, never run by a check).

    tools/run_script.py C10 file.smt2 [--reals]

The script is converted into the case format the history generator produces (options before set-logic, declarations,
commands with annotation-free reference text and the list of :named annotations) and handed to <check>.run_case. Used to
tell an oracle gap ("the oracle would not flag this even if it were generated") from a generation gap.
--reals: rewrite bare integer numerals as decimals (scripts in real logics written with 3 instead of 3.0; cvc5 is strict).
"""
import json
import os
import re
import sys

sys.path.insert(0, os.path.dirname(os.path.dirname(os.path.abspath(__file__))))
from ctl import main as M, runner, sexpr  # noqa: E402

BOOL_HEADS = {'and', 'or', 'not', '=>', 'xor', '=', 'distinct', '<', '<=', '>', '>=', 'true', 'false'}


def strip_named(e, names, top, bool_syms):
    """Returns e without (! t :named n) wrappers; appends (name, ref, is_bool, top) to names."""
    if isinstance(e, str):
        return e
    if e and e[0] == '!':
        inner = strip_named(e[1], names, False, bool_syms)
        for i in range(2, len(e) - 1, 2):
            if e[i] == ':named':
                t = sexpr.to_str(inner)
                head = inner if isinstance(inner, str) else inner[0]
                is_bool = top or head in BOOL_HEADS or head in bool_syms or (head == 'ite' and False)
                names.append([e[i + 1], t, bool(is_bool), top])
        return inner
    return [strip_named(x, names, False, bool_syms) for x in e]


def realify(text):
    return re.sub(r'(?<![\w.])(\d+)(?![\w.])', r'\1.0', text)


def convert(path, reals=False):
    text = open(path).read()
    cmds = sexpr.parse_all(text)
    options, decls, commands = [], [], []
    logic = None
    bool_syms = set()
    for c in cmds:
        k = c[0]
        if k == 'set-option':
            options.append([c[1], sexpr.to_str(c[2])])
        elif k == 'set-logic':
            logic = c[1]
        elif k == 'set-info' or k == 'exit':
            continue
        elif k == 'declare-sort':
            decls.append({'k': 'declare-sort', 'name': c[1], 'text': sexpr.to_str(c)})
        elif k in ('declare-fun', 'declare-const'):
            args = [sexpr.to_str(a) for a in c[2]] if k == 'declare-fun' else []
            ret = sexpr.to_str(c[-1])
            if ret == 'Bool':
                bool_syms.add(c[1])
            decls.append({'k': 'declare-fun', 'name': c[1], 'args': args, 'ret': ret, 'text': sexpr.to_str(c)})
        elif k == 'define-fun':
            t = sexpr.to_str(c)
            if reals:
                t = realify(t)
            commands.append({'k': 'define-fun', 'name': c[1], 'text': t, 'params': [sexpr.to_str(p[1]) for p in c[2]], 'ret': sexpr.to_str(c[3])})
        elif k == 'assert':
            names = []
            ref = strip_named(c[1], names, True, bool_syms)
            t, r = sexpr.to_str(c), sexpr.to_str(ref)
            if reals:
                t, r = realify(t), realify(r)
                names = [[n, realify(x), b, tp] for n, x, b, tp in names]
            syms = sorted(set(a for a in sexpr.atoms(ref)))
            commands.append({'k': 'assert', 'text': t, 'ref': r, 'names': names, 'syms': syms})
        elif k in ('push', 'pop'):
            n = int(c[1]) if len(c) > 1 else 1
            commands.append({'k': k, 'n': n, 'text': '(%s %d)' % (k, n)})
        elif k == 'get-value':
            terms = [sexpr.to_str(t) for t in c[1]]
            if reals:
                terms = [realify(t) for t in terms]
            commands.append({'k': 'get-value', 'terms': terms, 'text': '(get-value (%s))' % ' '.join(terms)})
        elif k == 'get-interpolants':
            groups = [[g] if isinstance(g, str) else list(g[1:]) for g in c[1:]]
            commands.append({'k': 'get-interpolants', 'groups': groups, 'text': sexpr.to_str(c)})
        else:
            commands.append({'k': k, 'text': sexpr.to_str(c)})
    hist = {'profile': logic, 'logic': logic, 'decls': decls, 'commands': commands}
    return hist, options


def main():
    pid, path = sys.argv[1], sys.argv[2]
    reals = '--reals' in sys.argv
    chk = M.registry()[pid]()
    h, options = convert(path, reals)
    inc = not any(o == [':incremental', 'false'] for o in options)
    case = {'pid': pid, 'idx': 0, 'hist': h, 'options': options, 'knobs': {}, 'unusual': {},
            'tags': {'engine': 'default', 'track': [], 'incremental': inc}}
    if hasattr(chk, 'finish_script_case'):
        case = chk.finish_script_case(case)
    ctx = runner.Ctx()
    try:
        res = chk.run_case(ctx, case)
    finally:
        ctx.close()
    res.pop('case', None)
    print(json.dumps({k: v for k, v in res.items() if k not in ('hash',)}, indent=1)[:6000])
    sys.exit(1 if res['violations'] else 0)


if __name__ == '__main__':
    main()
