#!/bin/bash
# Confirm a sub-agent's seeded change in its own scratch worktree: ctest passes with the change,
# the demonstration fails with the change and passes without it.  tools/confirm_mutant.sh /tmp/wt/Cxx
set -u
WT="$1"
cd "$WT" || exit 2
export CCACHE_NOHASHDIR=1 CCACHE_BASEDIR="$WT"
git diff --stat -- src | tail -3
cmake --build _build -j16 > /tmp/confirm_build.log 2>&1 || { echo "BUILD FAILED (with change)"; exit 1; }
ctest --test-dir _build -j16 --timeout 900 2>&1 | tail -3 | head -2
bash mutant/demo.sh > /tmp/confirm_demo_with.log 2>&1; echo "demo with change: exit=$?"
git stash -q -- src
cmake --build _build -j16 > /tmp/confirm_build2.log 2>&1 || { echo "BUILD FAILED (without change)"; git stash pop -q; exit 1; }
bash mutant/demo.sh > /tmp/confirm_demo_without.log 2>&1; echo "demo without change: exit=$?"
git stash pop -q
git diff --stat -- src | tail -1
