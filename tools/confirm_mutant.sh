#!/bin/bash
# Confirm a sub-agent's seeded change in its own scratch worktree: the patch applies to the pristine tree, ctest passes
# with the change, the demonstration fails with the change and passes without it.   tools/confirm_mutant.sh /tmp/wt/Cxx-b
set -u
WT="$1"
cd "$WT" || exit 2
export CCACHE_DIR=/var/tmp/wt-ccache CCACHE_NOHASHDIR=1 CCACHE_BASEDIR="$WT"
L="$WT/_confirm"; mkdir -p "$L"
git checkout -q -- src || exit 2
git apply --check mutant/patch.diff || { echo "PATCH DOES NOT APPLY to pristine tree"; exit 1; }
cmake --build _build -j16 > "$L/build0.log" 2>&1 || { echo "BUILD FAILED (without change)"; exit 1; }
timeout 1200 bash mutant/demo.sh > "$L/demo_without.log" 2>&1; W0=$?
git apply mutant/patch.diff
git diff --stat -- src | tail -1
cmake --build _build -j16 > "$L/build1.log" 2>&1 || { echo "BUILD FAILED (with change)"; exit 1; }
T=$(ctest --test-dir _build -j16 --timeout 900 2>&1 | grep -E "tests passed|tests failed")
timeout 1200 bash mutant/demo.sh > "$L/demo_with.log" 2>&1; W1=$?
echo "ctest(with change): $T"
echo "demo without change: exit=$W0   demo with change: exit=$W1"
if [ "$W0" = 0 ] && [ "$W1" != 0 ] && echo "$T" | grep -q "100% tests passed"; then echo "CONFIRMED"; else echo "NOT CONFIRMED"; exit 1; fi
