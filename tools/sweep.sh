#!/bin/bash
# Run every registered check's quick (or given tier) command on /repo as it is and summarise.   tools/sweep.sh [seed] [tier] [evidence-dir]
# With an evidence dir argument the evidence files go there (scratch sweep); without, /verif/evidence is rewritten.
cd /verif
SEED="${1:-1}"; TIER="${2:-quick}"
[ -n "${3:-}" ] && export VERIF_EVIDENCE_DIR="$3"
export VERIF_SEED="$SEED" VERIF_TIER="$TIER"
./build.sh sim tsan asan > /dev/null 2>&1 || { echo "build failed"; exit 2; }
for c in $(python3 -c "import json;print(' '.join(x['property_id'] for x in json.load(open('MANIFEST.json'))['checks']))"); do
  out=$(./check $c --tier $TIER --no-build 2>&1); code=$?
  echo "$out" | grep -E "VIOLATION|  class=|HARNESS" | cut -c1-260
  echo "$out" | tail -1 | cut -c1-200
done
