#!/usr/bin/env python3
"""Print the markdown table of DESIGN.md section 16 from seeded/*/meta.json (which tools/trial.sh keeps up to date)."""
import glob
import json

print('| change | property | file(s) changed | needs, to manifest | caught by (check: class, tier) | not caught by |')
print('|---|---|---|---|---|---|')
for p in sorted(glob.glob('/verif/seeded/*/meta.json')):
    m = json.load(open(p))
    hit, miss = [], []
    for c, v in sorted(m.get('checks_run', {}).items()):
        tier = 'thorough' if '--tier thorough' in v['cmd'] else 'quick'
        if v['exit'] == 1:
            hit.append('%s: %s (%s%s)' % (c.split('@')[0], v.get('first_violation_class'), tier, '; ' + v['note'] if v.get('note') else ''))
        else:
            miss.append('%s (%s, %s%s)' % (c.split('@')[0], tier, v.get('runs'), '; ' + v['note'] if v.get('note') else ''))
    files = ', '.join('`%s`' % f.replace('src/', '') for f in m['files_changed'])
    print('| %s | %s | %s | %s | %s | %s |' % (m['id'], m['property'], files, m['needs_to_manifest'], '; '.join(hit) or '**none**', '; '.join(miss) or '-'))
