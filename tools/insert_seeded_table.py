import subprocess,json,glob
tab=subprocess.run(['python3','/verif/tools/seeded_table.py'],capture_output=True,text=True).stdout
metas=[json.load(open(p)) for p in sorted(glob.glob('/verif/seeded/*/meta.json'))]
def caught(m,tier):
    return any(v['exit']==1 and (('--tier thorough' in v['cmd'])==(tier=='thorough')) for v in m['checks_run'].values())
q=[m['id'] for m in metas if caught(m,'quick')]
t=[m['id'] for m in metas if not caught(m,'quick') and caught(m,'thorough')]
n=[m['id'] for m in metas if not caught(m,'quick') and not caught(m,'thorough')]
summary=("Summary: %d of %d changes are caught by at least one check at the quick tier (%s); %d more at the thorough tier (%s)%s. "
         "The changes that need the thorough tier are those whose trigger is rare by construction - the authors measured 8 of 720 assertion "
         "orders (C02-b, C05-b), 1 in 5000 random conjunctions (C30-c), a specific lemma-cache state of the array solver (C22-c) - the quick "
         "tier samples a few thousand cases per property.\n\n" % (len(q),len(metas),', '.join(q),len(t),', '.join(t) or '-', ('; not caught by any recorded run: '+', '.join(n)) if n else ''))
p='/verif/DESIGN.md'; s=open(p).read()
marker='SEEDED-TABLE-PLACEHOLDER'
if marker in s:
    s=s.replace(marker, '<!-- seeded-table-begin -->\n'+summary+tab+'<!-- seeded-table-end -->')
else:
    a=s.index('<!-- seeded-table-begin -->'); b=s.index('<!-- seeded-table-end -->')+len('<!-- seeded-table-end -->')
    s=s[:a]+'<!-- seeded-table-begin -->\n'+summary+tab+'<!-- seeded-table-end -->'+s[b:]
open(p,'w').write(s)
print(summary)
