import subprocess,json,glob
tab=subprocess.run(['python3','/verif/tools/seeded_table.py'],capture_output=True,text=True).stdout
metas=[json.load(open(p)) for p in sorted(glob.glob('/verif/seeded/*/meta.json'))]
def caught(m,tier):
    return any(v['exit']==1 and (('--tier thorough' in v['cmd'])==(tier=='thorough')) for v in m['checks_run'].values())
q=[m['id'] for m in metas if caught(m,'quick')]
t=[m['id'] for m in metas if not caught(m,'quick') and caught(m,'thorough')]
n=[m['id'] for m in metas if not caught(m,'quick') and not caught(m,'thorough')]
summary=("Summary: %d of %d changes are caught by at least one check at the quick tier (%s); %d more at the thorough tier (%s)%s. "
         "A hit counts only if the reported violation can come from the change (see the caveat below the table). The changes that need the "
         "thorough tier, or escape both tiers, are those whose trigger is rare by construction - their authors measured 8 of 720 assertion orders "
         "(C02-b / C05-b, the same edit of the difference-logic solver; about one order in two thousand on favourable graphs by my own brute-force "
         "count), 1 in 5000 random conjunctions (C30-c), one particular shape of a decomposed Farkas combination under two of the five LRA "
         "interpolation algorithms (C08-c), an integer, a real and an integer interface variable with equal values in that order (C02-c), a "
         "specific lemma-cache state of the array solver (C22-c) - while the quick tier samples a few thousand cases per property.\n\n" % (len(q),len(metas),', '.join(q),len(t),', '.join(t) or '-', ('; not caught by any recorded run: '+', '.join(n)) if n else ''))
p='/verif/DESIGN.md'; s=open(p).read()
marker='SEEDED-TABLE-PLACEHOLDER'
if marker in s:
    s=s.replace(marker, '<!-- seeded-table-begin -->\n'+summary+tab+'<!-- seeded-table-end -->')
else:
    a=s.index('<!-- seeded-table-begin -->'); b=s.index('<!-- seeded-table-end -->')+len('<!-- seeded-table-end -->')
    s=s[:a]+'<!-- seeded-table-begin -->\n'+summary+tab+'<!-- seeded-table-end -->'+s[b:]
open(p,'w').write(s)
print(summary)
