#!/bin/bash
# Apply a seeded change to /repo, run the given checks against it, and undo it straight afterwards.
#   tools/try_mutant.sh seeded/<id> [--budget S] C01 C12 ...
# Prints one line per check: <check> exit=<code> and the VIOLATION lines. /repo is left clean.
set -u
D="$(realpath "$1")"; shift
BUDGET=60
if [ "${1:-}" = "--budget" ]; then BUDGET="$2"; shift 2; fi
cd /verif
export VERIF_EVIDENCE_DIR=/verif/build/tmp/mutant-evidence
if [ -n "$(git -C /repo status --porcelain --untracked-files=no)" ]; then echo "/repo has uncommitted changes; refusing" >&2; exit 2; fi
git -C /repo apply "$D/patch.diff" || { echo "patch does not apply" >&2; exit 2; }
trap 'git -C /repo checkout -- . ; echo "[/repo restored; rebuilding]"; /verif/build.sh sim tsan asan > /dev/null 2>&1' EXIT
for c in "$@"; do
  out=$(./check "$c" --tier quick --budget "$BUDGET" 2>&1)
  code=$?
  echo "== $c exit=$code"
  echo "$out" | grep -E "VIOLATION|class=|HARNESS|tier=" | cut -c1-300
done
