#!/bin/bash
# Prepare a second scratch sandbox ($TRIAL_DIR, default /var/tmp/trial2) with a seeded change applied and osim built (sim flavour
# unless others are named), for running single scripts or cases by hand:   tools/mutant_tree.sh seeded/C10-b [sim asan tsan]
# then:  cd /var/tmp/trial2/verif && tools/run_script.py C10 /verif/seeded/C10-b/trigger_bool_nested.smt2
set -eu
T=${TRIAL_DIR:-/var/tmp/trial2}
D="$(realpath "$1")"; shift
FL="${*:-sim}"
mkdir -p $T
[ -d $T/repo ] || git -C /repo worktree add --detach $T/repo HEAD > /dev/null 2>&1
git -C $T/repo checkout -q --detach "$(git -C /repo rev-parse HEAD)" && git -C $T/repo checkout -q -- . && git -C $T/repo clean -fdq -- src
rsync -a --delete --exclude build --exclude replays --exclude .git --exclude __pycache__ /verif/ $T/verif/
mkdir -p $T/verif/build $T/verif/replays; [ -e $T/verif/build/ccache ] || ln -s /verif/build/ccache $T/verif/build/ccache
git -C $T/repo apply "$D/patch.diff"
cd $T/verif && VERIF_REPO=$T/repo ./build.sh $FL && echo "ready: $T/verif (osim with $(basename $D))"
