#!/bin/bash
# tools/adopt_mutant.sh /tmp/wt/C03-b C03-b C03 "what it needs to manifest"
# Copies the confirmed change + demonstration to /verif/seeded/<id>/, writes meta.json, removes the scratch worktree.
set -eu
WT="$1"; ID="$2"; PROP="$3"; NEEDS="$4"
D=/verif/seeded/$ID
grep -q CONFIRMED <(/verif/tools/confirm_mutant.sh "$WT" 2>&1 | tee /tmp/adopt_confirm.log) || { cat /tmp/adopt_confirm.log; echo "not confirmed; not adopted"; exit 1; }
mkdir -p "$D"
cp -r "$WT"/mutant/. "$D"/
rm -rf "$D"/*.log "$D"/_scratch "$D"/a.out 2>/dev/null || true
python3 - "$ID" "$PROP" "$NEEDS" "$D" <<'PY'
import json,sys,subprocess
i,p,needs,d=sys.argv[1:5]
conf=open('/tmp/adopt_confirm.log').read().strip().splitlines()
files=subprocess.run(['grep','-E','^diff --git',d+'/patch.diff'],capture_output=True,text=True).stdout.split('\n')
meta={'id':i,'property':p,'files_changed':[l.split(' b/')[-1] for l in files if l],
      'needs_to_manifest':needs,
      'confirmed_in_scratch_worktree':{'how':'tools/confirm_mutant.sh: patch applies to pristine HEAD; ctest with change; demo.sh without / with change','result':conf},
      'checks_run':{}}
json.dump(meta,open(d+'/meta.json','w'),indent=1)
PY
git -C /repo worktree remove --force "$WT"
echo "adopted $ID"
