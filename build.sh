#!/bin/bash
# Build OpenSMT from /repo's *current working tree* in the simulation flavours and link osim.
#   ./build.sh [sim] [asan] [tsan]      (default: sim)
# Output: /verif/build/<flavour>/osim ; everything under /verif/build is git-ignored.
set -euo pipefail
HERE="$(cd "$(dirname "$0")" && pwd)"
REPO="${VERIF_REPO:-/repo}"
B="$HERE/build"
mkdir -p "$B" "$B/tmp"
export CCACHE_DIR="$B/ccache"
export CCACHE_BASEDIR="$REPO"
export CCACHE_NOHASHDIR=1
JOBS="${VERIF_BUILD_JOBS:-16}"
FLAVOURS=("$@")
[ ${#FLAVOURS[@]} -eq 0 ] && FLAVOURS=(sim)

COMMON="-O1 -gline-tables-only -DNDEBUG -DOPENSMT_VERIF_SIM -finstrument-functions-after-inlining -fno-omit-frame-pointer -Wno-error -Wno-unused-command-line-argument"

build_one() {
  local fl="$1" extra="" ldextra="" defs=""
  case "$fl" in
    sim)  extra=""; defs="-DOSIM_HEAP_LAYER=1" ;;
    asan) extra="-fsanitize=address,undefined -fno-sanitize-recover=undefined"; ldextra="-fsanitize=address,undefined"; defs="-DOSIM_ASAN=1" ;;
    tsan) extra="-fsanitize=thread"; ldextra="-fsanitize=thread"; defs="-DOSIM_TSAN=1" ;;
    *) echo "unknown flavour $fl" >&2; exit 2 ;;
  esac
  local D="$B/$fl"
  mkdir -p "$D"
  (
    flock 9
    if [ ! -f "$D/repo/build.ninja" ]; then
      cmake -S "$REPO" -B "$D/repo" -G Ninja \
        -DCMAKE_CXX_COMPILER=clang++ -DCMAKE_CXX_COMPILER_LAUNCHER=ccache \
        -DCMAKE_BUILD_TYPE=None "-DCMAKE_CXX_FLAGS=$COMMON $extra" \
        -DBUILD_SHARED_LIBS=OFF -DBUILD_STATIC_LIBS=ON -DBUILD_EXECUTABLES=OFF -DPACKAGE_TESTS=OFF \
        > "$D/cmake.log" 2>&1 || { cat "$D/cmake.log" >&2; exit 2; }
    fi
    ninja -C "$D/repo" -j "$JOBS" OpenSMT-static > "$D/ninja.log" 2>&1 || { tail -50 "$D/ninja.log" >&2; exit 2; }
    local LIB
    LIB="$(find "$D/repo" -name 'libopensmt.a' | head -1)"
    [ -n "$LIB" ] || { echo "libopensmt.a not found" >&2; exit 2; }
    local INC="-I$REPO/src -I$D/repo/src -I$D/repo/src/parsers/smt2new"
    local CXX="ccache clang++ -std=c++20"
    mkdir -p "$D/obj"
    local objs=() pids=()
    # the real main(), renamed
    $CXX $COMMON $extra $INC -Dmain=opensmt_cli_main "-DOPENSMT_GIT_DESCRIPTION=\"sim\"" -c "$REPO/src/bin/opensmt.cc" -o "$D/obj/opensmt_cli.o" &
    pids+=($!)
    objs+=("$D/obj/opensmt_cli.o")
    for src in "$HERE"/sim/*.cc; do
      local o="$D/obj/$(basename "${src%.cc}").o"
      objs+=("$o")
      local f="$COMMON $extra"
      case "$(basename "$src")" in
        rt_*.cc) f="${f/-finstrument-functions-after-inlining/}"; f="${f/-fsanitize=thread/}" ;;   # simulator runtime: never ticks, invisible to TSan
      esac
      if [ ! -f "$o" ] || [ "$src" -nt "$o" ] || [ -n "$(find "$HERE/sim" -name '*.h' -newer "$o" | head -1)" ] || [ "$LIB" -nt "$o" ]; then
        $CXX $f $defs $INC -I"$HERE/sim" -c "$src" -o "$o" &
        pids+=($!)
      fi
    done
    local rc=0
    for p in "${pids[@]}"; do wait "$p" || rc=1; done
    [ $rc -eq 0 ] || { echo "osim compile failed ($fl)" >&2; exit 2; }
    local WRAPS="-Wl,--wrap=read -Wl,--wrap=getrusage -Wl,--wrap=rand -Wl,--wrap=pthread_mutex_lock"
    clang++ $ldextra -o "$D/osim.new" "${objs[@]}" "$LIB" $WRAPS -lgmpxx -lgmp -lpthread -ldl \
      || { echo "osim link failed ($fl)" >&2; exit 2; }
    mv -f "$D/osim.new" "$D/osim"
  ) 9> "$D/.lock"
}

for fl in "${FLAVOURS[@]}"; do build_one "$fl"; done
