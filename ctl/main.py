"""./check <Cnn> --tier quick|thorough | replay <file> | selftest | determinism"""
import argparse
import json
import os
import subprocess
import sys

from . import runner

VERIF = runner.VERIF


def registry():
    from . import checks_answers as A
    reg = {}
    for cls in (A.C01, A.C02, A.C04, A.C05, A.C30):
        reg[cls.pid] = cls
    for modname in ('checks_monitors', 'checks_artifacts', 'checks_theory', 'checks_exec', 'checks_threads'):
        try:
            mod = __import__('ctl.' + modname, fromlist=['CHECKS'])
        except ImportError:
            continue
        for cls in mod.CHECKS:
            reg[cls.pid] = cls
    return reg


def build(flavours):
    r = subprocess.run([os.path.join(VERIF, 'build.sh')] + list(flavours), stdout=subprocess.PIPE, stderr=subprocess.STDOUT)
    if r.returncode != 0:
        sys.stdout.write(r.stdout.decode(errors='replace')[-4000:])
        print('HARNESS-ERROR build failed for flavours %s' % (list(flavours),))
        sys.exit(2)


def main():
    ap = argparse.ArgumentParser()
    ap.add_argument('what')
    ap.add_argument('arg', nargs='?')
    ap.add_argument('--tier', default=os.environ.get('VERIF_TIER', 'quick'))
    ap.add_argument('--seed', type=int, default=None)
    ap.add_argument('--budget', type=float, default=None)
    ap.add_argument('--jobs', type=int, default=None)
    ap.add_argument('--cases', type=int, default=None)
    ap.add_argument('--no-build', action='store_true')
    a = ap.parse_args()
    reg = registry()
    if a.what == 'replay':
        rec = json.load(open(a.arg))
        chk = reg[rec.get('check', rec['property'])]()
        if not a.no_build:
            build(chk.flavours)
        sys.exit(runner.replay(chk, a.arg))
    if a.what == 'selftest':
        from . import selftest
        sys.exit(selftest.main())
    if a.what == 'determinism':
        rc = 0
        for pid in ([a.arg] if a.arg else sorted(reg)):
            chk = reg[pid]()
            if not a.no_build:
                build(chk.flavours)
            rc = max(rc, runner.determinism(chk, n=int(a.budget or 300), jobs=a.jobs or 16, seed=a.seed))
        sys.exit(rc)
    if a.what not in reg:
        print('unknown property %s (known: %s)' % (a.what, ' '.join(sorted(reg))))
        sys.exit(2)
    chk = reg[a.what]()
    if not a.no_build:
        build(chk.flavours)
    sys.exit(runner.run_check(chk, a.tier, seed=a.seed, budget_s=a.budget, jobs=a.jobs, cases=a.cases))


if __name__ == '__main__':
    main()
