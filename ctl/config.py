"""Configuration vector (DESIGN.md Appendix E): SMT-LIB options emitted in the script prefix, engine fields
("knobs") moved through the SimEngine seam, and buggify ("unusual") decision lists."""

ENGINES = ['default', 'default', 'default', 'lookahead', 'picky', 'ghost', 'deep']


def gen_config(rng, *, need=(), allow_engines=True, allow_nonincremental=True, perturb=True, forbid=()):
    """Returns (options list [(name, value-text)], knobs dict, unusual dict, tags dict).

    need: tracking options that must be on: 'models', 'assignments', 'cores', 'mincores', 'fullcores', 'interpolants', 'proofs'
    forbid: names from the same vocabulary that must stay off (e.g. 'proofs' when substitutions are wanted)
    """
    r = rng
    opts = []
    tags = {}
    need = set(need)
    forbid = set(forbid)
    engine = 'default'
    if allow_engines and r.random() < 0.45:
        engine = r.choice(ENGINES)
    # ghost engine and lookahead do not support proof-based artefacts in the same way; combinations OpenSMT
    # rejects are discarded at run time (counted), not here.
    tags['engine'] = engine
    if engine == 'lookahead':
        opts.append((':pure-lookahead', 'true'))
    elif engine == 'picky':
        opts.append((':picky', 'true'))
        if r.random() < 0.5:
            opts.append((':picky_w', str(r.choice([1, 2, 5, 20]))))
    elif engine == 'ghost':
        opts.append((':ghost-vars', 'true'))
    elif engine == 'deep':
        opts.append((':pure-lookahead', 'true'))
        opts.append((':lookahead-score-deep', 'true'))

    track = set(need)
    for t, p in (('models', 0.35), ('assignments', 0.15), ('cores', 0.15), ('interpolants', 0.12), ('proofs', 0.12)):
        if t not in forbid and r.random() < p and perturb:
            track.add(t)
    if 'mincores' in track or 'fullcores' in track:
        track.add('cores')
    if 'models' in track:
        opts.append((':produce-models', 'true'))
    if 'assignments' in track:
        opts.append((':produce-assignments', 'true'))
    if 'cores' in track:
        opts.append((':produce-unsat-cores', 'true'))
        if 'mincores' in track or (perturb and 'mincores' not in forbid and r.random() < 0.3):
            opts.append((':minimal-unsat-cores', 'true'))
            track.add('mincores')
        if 'fullcores' in track or (perturb and 'fullcores' not in forbid and r.random() < 0.3):
            opts.append((':print-cores-full', 'true'))
            track.add('fullcores')
    if 'interpolants' in track:
        opts.append((':produce-interpolants', 'true'))
    if 'proofs' in track:
        opts.append((':produce-proofs', 'true'))
    tags['track'] = sorted(track)

    incremental = True
    if allow_nonincremental and r.random() < 0.25:
        incremental = False
        opts.append((':incremental', 'false'))
    tags['incremental'] = incremental

    knobs = {}
    unusual = {}
    if perturb:
        if r.random() < 0.2:
            opts.append((':do-substitutions', 'false'))
        if r.random() < 0.7:
            opts.append((':random-seed', str(r.randint(1, 10 ** 6))))
        if r.random() < 0.3:
            opts.append((':random-var-freq', r.choice(['0.0', '0.1', '0.5', '1.0'])))
        if r.random() < 0.3:
            opts.append((':rnd-pol', 'true'))
        if r.random() < 0.2:
            opts.append((':rnd-init-act', 'true'))
        if r.random() < 0.25:
            opts.append((':luby-restart', 'true'))
        if r.random() < 0.5:
            opts.append((':restart-first', str(r.choice([1, 1, 2, 3, 5, 20]))))
        if r.random() < 0.25:
            opts.append((':restart-inc', r.choice(['1.0', '1.05', '2.0'])))
        if r.random() < 0.3:
            opts.append((':ccmin-mode', str(r.choice([0, 2]))))
        if r.random() < 0.2:
            opts.append((':var-decay', r.choice(['0.5', '0.8', '1.0'])))
        if r.random() < 0.2:
            opts.append((':clause-decay', r.choice(['0.5', '0.9', '1.0'])))
        if r.random() < 0.5:
            opts.append((':garbage-frac', r.choice(['0.0', '0.0', '0.01', '0.5'])))
        if not incremental:
            if r.random() < 0.4:
                opts.append((':simp-gc-frac', r.choice(['0.0', '0.01'])))
            if r.random() < 0.3:
                opts.append((':grow', str(r.choice([0, 1, 4, 100]))))
            if r.random() < 0.2:
                opts.append((':cl-lim', str(r.choice([-1, 3, 6]))))
            if r.random() < 0.2:
                opts.append((':sub-lim', str(r.choice([-1, 2, 100]))))
            if r.random() < 0.25:
                opts.append((':asymm', 'true'))
            if r.random() < 0.25:
                opts.append((':rcheck', 'true'))
            if r.random() < 0.15:
                opts.append((':elim', 'false'))
        if r.random() < 0.6:
            knobs['nof_learnts'] = r.choice([0, 1, 2, 3, 5, 10, 50])
            knobs['nofLearntsIncrement'] = r.choice([1.0, 1.1, 1.5])
        if r.random() < 0.3:
            knobs['sat_initial_skip_step'] = r.choice([1, 2, 5, 50])
        if r.random() < 0.25:
            knobs['sat_skip_step_factor'] = r.choice([1.0, 1.5, 3.0])
        if r.random() < 0.2:
            knobs['sat_learn_up_to_size'] = r.choice([0, 1, 2, 3])
        if r.random() < 0.2:
            knobs['sat_temporary_learn'] = r.choice([0, 1])
        if r.random() < 0.5:
            n = r.randint(1, 40)
            pr = r.choice([0.05, 0.3, 0.8])
            unusual['BLAND'] = [1 if r.random() < pr else -1 for _ in range(n)]
        if r.random() < 0.5:
            n = r.randint(1, 60)
            unusual['CUT'] = [r.choice([0, 1, 1, -1]) for _ in range(n)]
    return opts, knobs, unusual, tags


def itp_options(rng):
    r = rng
    opts = []
    if r.random() < 0.7:
        opts.append((':interpolation-bool-algorithm', str(r.choice([0, 1, 2, 3, 4, 5]))))
    if r.random() < 0.7:
        opts.append((':interpolation-euf-algorithm', str(r.choice([0, 2, 3]))))
    if r.random() < 0.7:
        alg = r.choice([0, 2, 3, 4, 5])
        opts.append((':interpolation-lra-algorithm', str(alg)))
        if alg == 3 or r.random() < 0.3:
            opts.append((':interpolation-lra-factor', r.choice(['"0"', '"1/2"', '"1/3"', '"9/10"', '"1"'])))
    if r.random() < 0.4:
        opts.append((':proof-reduce', 'true'))
        if r.random() < 0.5:
            opts.append((':proof-num-graph-traversals', str(r.choice([1, 2, 3]))))
        if r.random() < 0.5:
            opts.append((':proof-num-global-iterations', str(r.choice([1, 2]))))
    if r.random() < 0.6:
        opts.append((':simplify-interpolants', str(r.choice([0, 1, 2, 3, 4]))))
    return opts
