"""Engine M checks: C24 (instances in different threads do not interfere), C25 (asynchronous stop)."""
import copy
import re

from . import gen, hist
from .refs import RefError, prelude_from_decls
from .runner import Check, sim_ticks, bump, death_of, empty_result, log_hash, stable_hash, sub_rng

RES = {1: 'sat', -1: 'unsat', 0: 'unknown', 2: 'error', 99: 'unfinished'}


def api_task(rng, prof, big=0.5, clausal=0.5, ncmds=(4, 14)):
    """A single-query instance loadable through the API loader of osim (no let / named / define-fun / push)."""
    h = hist.gen_history(rng, prof, clausal=clausal, max_push=0, ncmds=ncmds, unsat_bias=0.3, final_check=False, p_check=0.0, big=big, max_depth=2, allow_let=False, bool_args=False, subst=0.3)
    cmds = [d['text'] for d in h['decls']] + [c['text'] for c in h['commands'] if c['k'] == 'assert']
    return {'kind': 'solve', 'logic': h['logic'], 'options': [], 'knobs': {}, 'commands': cmds, 'decls': h['decls'], 'refs': [c['ref'] for c in h['commands'] if c['k'] == 'assert']}


def plan_task(t):
    return {k: v for k, v in t.items() if k in ('kind', 'logic', 'options', 'knobs', 'commands', 'target', 'scope')}


def tsan_reports(stderr):
    """List of reports: dict(kind, frames=[[func,...] per access]) with only frames from the repository or the harness."""
    out = []
    for block in stderr.split('=================='):
        m = re.search(r'WARNING: ThreadSanitizer: ([^\n(]+)', block)
        if not m:
            continue
        accesses = []
        cur = None
        for line in block.split('\n'):
            if re.match(r'\s+(Read|Write|Previous read|Previous write|Atomic|Previous atomic)', line):
                cur = []
                accesses.append(cur)
            fm = re.match(r'\s+#\d+ (.+?) (/\S+|<null>)', line)
            if fm and cur is not None:
                func, path = fm.group(1), fm.group(2)
                if '/repo/src/' in path or 'opensmt::' in func or '/verif/sim/' in path:
                    cur.append(re.sub(r'\(.*', '', func).strip() + '@' + re.sub(r':\d+(:\d+)?$', '', path.split('/repo/src/')[-1]))
            if re.match(r'\s+(Location|Thread T\d+ .*created|Mutex)', line):
                cur = None
        out.append({'kind': m.group(1).strip(), 'accesses': [a[:3] for a in accesses[:2]]})
    return out


def race_signature(rep):
    tops = []
    for a in rep['accesses']:
        prod = [f for f in a if '@' in f and not f.split('@')[1].startswith('/verif/')]
        tops.append(prod[0] if prod else (a[0] if a else '?'))
    return sorted(tops)


def only_harness(rep):
    fr = [f for a in rep['accesses'] for f in a]
    return bool(fr) and all('/verif/sim/' in f or 'osim::' in f for f in fr)


class C24(Check):
    pid = 'C24'
    flavours = ('sim', 'tsan', 'asan')
    jobs = 12
    technique = ('deterministic simulation of thread interleavings: real threads parked and released by a seeded baton scheduler that is invisible to ThreadSanitizer; '
                 'TSan (race oracle) and ASan (memory oracle) builds; results compared with the same instance run alone')
    rule = ('2-8 tasks, each building its own Logic / SMTConfig / MainSolver inside its own thread and solving a generated arithmetic / UF problem with coefficients beyond machine words; '
            'seeded quanta (1-5000 ticks, heavy-tailed); each result must equal the result of the same task alone in a fresh process, no TSan report with a repository frame, no ASan / UBSan report; '
            'non-trivial = >= 2 tasks used big rationals and >= 1 switch happened inside check(); distinct = schedule-trace hash')
    PROFILES = ['QF_LRA', 'QF_LRA', 'QF_LIA', 'QF_UFLRA', 'QF_UF', 'QF_RDL', 'QF_IDL', 'QF_UFLIA']

    def gen_case(self, seed, idx, tier):
        r = sub_rng(seed, self.pid, idx, 'tasks')
        n = r.choice([2, 2, 3, 4] if tier == 'quick' else [2, 3, 4, 6, 8])
        tasks = []
        for k in range(n):
            prof = r.choice(self.PROFILES)
            tasks.append(api_task(sub_rng(seed, self.pid, idx, 'task', k), prof))
        rs = sub_rng(seed, self.pid, idx, 'sched')
        sched = []
        for _ in range(rs.randint(40, 500)):
            c = rs.random()
            q = rs.randint(1, 30) if c < 0.45 else rs.randint(30, 500) if c < 0.8 else rs.randint(500, 5000)
            sched.append([rs.randrange(n), q])
        return {'pid': self.pid, 'idx': idx, 'tasks': tasks, 'schedule': sched, 'flavour': rs.choice(['tsan', 'tsan', 'asan'])}

    def plan(self, case, tasks=None, schedule=None):
        tasks = case['tasks'] if tasks is None else tasks
        return {'id': case.get('idx', 0), 'engine': 'M', 'build_in_thread': True, 'budget_ticks': 60000000, 'cpu_s': 120, 'wall_s': 300,
                'tasks': [plan_task(t) for t in tasks], 'schedule': case['schedule'] if schedule is None else schedule}

    def run_case(self, ctx, case):
        res = empty_result()
        flav = case['flavour']
        resp = ctx.osim(flav).run(self.plan(case))
        bump(res, 'runs')
        bump(res, 'sim-ticks', sim_ticks(resp))
        bump(res, 'flavour:' + flav)
        d = death_of(resp)
        if d and d[0] == 'harness':
            raise RuntimeError('harness: %r' % (d[1],))
        log = resp.get('log', [])
        results = {e['id']: e for e in log if e.get('ev') == 'task'}
        sched = next((e for e in log if e.get('ev') == 'sched'), {'switches': 0, 'trace': []})
        res['hash'] = stable_hash([[(e['id'], e.get('result'), e.get('ticks')) for e in results.values()], sched.get('trace')])
        res['key'] = stable_hash(sched.get('trace'))
        bump(res, 'F-preempt', sched.get('switches', 0))
        stderr = resp.get('stderr', '')
        in_check = 0
        for tr in sched.get('trace', []):
            m = re.match(r'(-?\d+)@(\d+)>(-?\d+)', tr)
            if m and int(m.group(1)) in results:
                e = results[int(m.group(1))]
                if e.get('check_begin', 0) < int(m.group(2)) < (e.get('check_end') or 10 ** 18):
                    in_check += 1
        bump(res, 'P-switch-inside-check', in_check)
        big = sum(1 for t in case['tasks'] if any(len(tok) >= 10 for tok in re.findall(r'\d+', ' '.join(t['commands']))))
        if big >= 2 and in_check >= 1:
            res['nontrivial'] = True
        if any('mpqPool' in tr or 'FastRational' in tr for tr in sched.get('trace', [])):
            bump(res, 'P-pool-interleaved')
        # (ii) races
        if flav == 'tsan':
            reps = tsan_reports(stderr)
            for rep in reps:
                if only_harness(rep):
                    raise RuntimeError('TSan report inside the harness: %r' % (rep,))
                res['violations'].append({'cls': 'race', 'sig': {'kind': rep['kind'], 'where': race_signature(rep)}, 'detail': {'report': rep, 'stderr_head': stderr[:1500]}})
                break
        # (iii) memory errors / crashes
        if d and not res['violations']:
            if d[0] in ('CPU', 'WALL', 'LIVENESS'):
                res['discarded'] = 'budget:' + d[0]
                return res
            if not (flav == 'tsan' and d[0] == 'SANITIZER'):
                res['violations'].append({'cls': 'memory-error', 'sig': {'kind': d[0], 'flavour': flav}, 'detail': {'death': str(d)[:200], 'stderr': stderr[-1500:]}})
        if flav == 'asan' and ('AddressSanitizer' in stderr or 'runtime error:' in stderr) and not res['violations']:
            res['violations'].append({'cls': 'memory-error', 'sig': {'kind': 'SANITIZER', 'flavour': flav}, 'detail': {'stderr': stderr[-1500:]}})
        if res['violations']:
            return res
        # (i) each task alone, in a fresh process of the plain flavour
        for i, t in enumerate(case['tasks']):
            alone = ctx.osim('sim').run(self.plan(case, tasks=[t], schedule=[]))
            bump(res, 'alone-runs')
            ar = next((e for e in alone.get('log', []) if e.get('ev') == 'task'), None)
            if death_of(alone) or ar is None:
                bump(res, 'alone-died')
                continue
            a, b = RES.get(ar.get('result')), RES.get(results.get(i, {}).get('result'))
            if ar.get('exception') or results.get(i, {}).get('exception'):
                if bool(ar.get('exception')) != bool(results.get(i, {}).get('exception')):
                    res['violations'].append({'cls': 'answer-differs-from-alone', 'sig': {'alone': 'exception' if ar.get('exception') else a, 'together': 'exception' if results.get(i, {}).get('exception') else b},
                                              'detail': {'task': i, 'alone': ar, 'together': results.get(i)}})
                    break
                continue
            if a == 'unknown' or b == 'unknown':
                bump(res, 'unknown')
                continue
            if a != b:
                res['violations'].append({'cls': 'answer-differs-from-alone', 'sig': {'alone': a, 'together': b}, 'detail': {'task': i, 'logic': t['logic']}})
                break
        return res

    def shrink_steps(self, case):
        if len(case['tasks']) > 2:
            for i in range(len(case['tasks'])):
                c = copy.deepcopy(case)
                del c['tasks'][i]
                c['schedule'] = [[t if t < i else t - 1, q] for t, q in c['schedule'] if t != i]
                yield c
        n = len(case['schedule'])
        size = n // 2
        while size >= 1:
            for start in range(n - size, -1, -size):
                c = copy.deepcopy(case)
                del c['schedule'][start:start + size]
                yield c
            size //= 2
        for i, t in enumerate(case['tasks']):
            na = sum(1 for x in t['commands'] if x.startswith('(assert'))
            if na > 1:
                for j, x in enumerate(t['commands']):
                    if x.startswith('(assert'):
                        c = copy.deepcopy(case)
                        del c['tasks'][i]['commands'][j]
                        yield c

    def sample_of(self, case):
        return {'tasks': [{'logic': t['logic'], 'commands': t['commands'][-3:]} for t in case['tasks']], 'schedule': case['schedule'][:30], 'flavour': case['flavour']}


PHASES = [('preprocess', r'simplifyFormulas|Substitut|Rewriter|rewrite|IteHandler|getNewFacts|retrieveSubstitutions|preprocess|DivMod|Distinct|purify|mkAnd|mkOr|termSort'),
          ('cnf', r'Tseitin|Cnfizer|cnfize|giveToSolver|addOriginal'),
          ('eliminate', r'SimpSMTSolver::(eliminate|backwardSubsumption|asymm|merge|strengthen|gatherTouched)'),
          ('explain', r'Explainer|getConflict|getReason|explain'),
          ('model', r'Model|fillBooleanVars|fillTheoryFunctions'),
          ('tcheck', r'LASolver|Simplex|Egraph|STP|ArraySolver|THandler|TSolverHandler|Tableau|LRAModel|Polynomial|FastRational|LABound'),
          ('search', r'CoreSMTSolver|SimpSMTSolver|Lookahead|GhostSMTSolver')]


def phase_of(symbol):
    for name, pat in PHASES:
        if re.search(pat, symbol):
            return name
    return 'other'


class C25(Check):
    pid = 'C25'
    flavours = ('sim', 'tsan')
    jobs = 12
    technique = ('deterministic simulation of asynchronous stop delivery: a stopper thread is given the baton at a seeded logical tick of the solving thread (sampled per phase); '
                 'answers checked against the undisturbed run and R-truth; TSan build as race oracle on the stop flags')
    rule = ('instances built on the main thread, solved on a task thread; a dry run of the same plan without the stopper gives the tick span of check(); the stop (local notifyStop or notifyGlobalStop) '
            'is delivered at a seeded tick inside [check begin - 50, check end + 50] biased to entry / exit / each phase; the call must return unknown or the true answer (dry run, and R-truth when resolved), '
            'no crash, no TSan report; non-trivial = stop delivered strictly inside check() of a run whose dry run needed >= 1000 ticks; distinct = hash of (instance, stop tick, scope)')
    PROFILES = ['QF_LRA', 'QF_LIA', 'QF_UF', 'QF_UFLRA', 'QF_RDL', 'QF_IDL', 'QF_AX', 'QF_UFLIA', 'PROP', 'QF_ALIA']

    def gen_case(self, seed, idx, tier):
        r = sub_rng(seed, self.pid, idx, 'p')
        prof = r.choice(self.PROFILES)
        t = api_task(sub_rng(seed, self.pid, idx, 'task'), prof, big=0.15, clausal=0.8, ncmds=(8, 24))
        eng = r.choice(['default', 'default', 'default', 'lookahead', 'picky', 'ghost'])
        opts = []
        if eng == 'lookahead':
            opts.append([':pure-lookahead', 'true'])
        elif eng == 'picky':
            opts.append([':picky', 'true'])
        elif eng == 'ghost':
            opts.append([':ghost-vars', 'true'])
        if r.random() < 0.3:
            opts.append([':incremental', 'false'])
        if r.random() < 0.4:
            opts.append([':produce-models', 'true'])
        t['options'] = opts
        where = r.choice(['entry', 'exit', 'frac', 'frac', 'frac', 'frac', 'before', 'after'])
        return {'pid': self.pid, 'idx': idx, 'task': t, 'engine': eng, 'where': where, 'frac': r.random(), 'delta': r.randint(0, 50), 'scope': r.choice(['local', 'local', 'global']),
                'flavour': 'tsan' if r.random() < 0.25 else 'sim'}

    def run_case(self, ctx, case):
        res = empty_result()
        flav = case['flavour']
        o = ctx.osim(flav)
        t = case['task']
        base = {'id': case.get('idx', 0), 'engine': 'M', 'build_in_thread': False, 'budget_ticks': 12000000, 'cpu_s': 90, 'wall_s': 200}
        dry = o.run(dict(base, tasks=[plan_task(t)], schedule=[]))
        bump(res, 'runs', 2)
        bump(res, 'flavour:' + flav)
        dd = death_of(dry)
        if dd and dd[0] == 'harness':
            raise RuntimeError('harness: %r' % (dd[1],))
        dr = next((e for e in dry.get('log', []) if e.get('ev') == 'task'), None)
        if dd or dr is None or dr.get('exception') or any(e.get('ev') == 'build-error' for e in dry.get('log', [])):
            res['discarded'] = 'dry-run-failed'
            return res
        truth = RES.get(dr['result'])
        b, e = dr['check_begin'], dr['check_end']
        if case['where'] == 'entry':
            tick = b + case['delta']
        elif case['where'] == 'exit':
            tick = max(b, e - case['delta'])
        elif case['where'] == 'before':
            tick = max(1, b - case['delta'])
        elif case['where'] == 'after':
            tick = e + 1 + case['delta']
        else:
            tick = b + int(case['frac'] * max(1, e - b))
        tick = max(1, tick)
        plan = dict(base, tasks=[plan_task(t), {'kind': 'stopper', 'target': 0, 'scope': case['scope']}], schedule=[[0, tick], [1, -1], [0, -1]])
        resp = o.run(plan)
        d = death_of(resp)
        if d and d[0] == 'harness':
            raise RuntimeError('harness: %r' % (d[1],))
        log = resp.get('log', [])
        bump(res, 'sim-ticks', sim_ticks(resp) + sim_ticks(dry))
        tr = next((x for x in log if x.get('ev') == 'task' and x.get('kind') == 'solve'), None)
        st = next((x for x in log if x.get('ev') == 'task' and x.get('kind') == 'stopper'), None)
        sched = next((x for x in log if x.get('ev') == 'sched'), {'trace': []})
        res['hash'] = stable_hash([tr, st, sched.get('trace')])
        res['key'] = stable_hash([t['commands'], t['options'], tick, case['scope']])
        stderr = resp.get('stderr', '')
        delivered_inside = bool(st and st.get('delivered') and b < st['at_target_tick'] <= e)
        phase = 'none'
        for x in sched.get('trace', []):
            m = re.match(r'0@(\d+)>1:?(.*)', x)
            if m:
                phase = phase_of(m.group(2)) if delivered_inside else ('before' if int(m.group(1)) <= b else 'after')
        bump(res, 'P-stop-in-' + phase)
        bump(res, 'F-stop-' + case['scope'])
        if delivered_inside and (e - b) >= 1000:
            res['nontrivial'] = True
        if flav == 'tsan':
            reps = tsan_reports(stderr)
            for rep in reps:
                if only_harness(rep):
                    raise RuntimeError('TSan report inside the harness: %r' % (rep,))
                frames = ' '.join(f for a in rep['accesses'] for f in a)
                cls = 'race-on-stop-flag' if re.search(r'[sS]top', frames) else 'race'
                res['violations'].append({'cls': cls, 'sig': {'where': race_signature(rep)}, 'detail': {'report': rep, 'stderr_head': stderr[:1200]}})
                return res
        if d and not (flav == 'tsan' and d[0] == 'SANITIZER'):
            if d[0] in ('CPU', 'WALL', 'LIVENESS'):
                res['discarded'] = 'budget:' + d[0]
                return res
            res['violations'].append({'cls': 'crash-on-stop', 'sig': {'kind': d[0], 'engine': case['engine'], 'phase': phase}, 'detail': {'death': str(d)[:200], 'stderr': stderr[-1200:]}})
            return res
        if tr is None:
            res['discarded'] = 'no-result'
            return res
        if tr.get('exception'):
            res['violations'].append({'cls': 'crash-on-stop', 'sig': {'kind': 'EXCEPTION', 'engine': case['engine'], 'phase': phase}, 'detail': {'exception': tr['exception']}})
            return res
        got = RES.get(tr['result'])
        bump(res, 'answer-after-stop:' + str(got))
        if got in ('sat', 'unsat') and truth in ('sat', 'unsat') and got != truth:
            # which side is right?
            side = None
            try:
                side = ctx.refs.truth(prelude_from_decls(t['decls']), t['refs'])
            except RefError:
                pass
            if side is None or side != got:
                res['violations'].append({'cls': 'wrong-answer-after-stop', 'sig': {'engine': case['engine'], 'phase': phase, 'scope': case['scope']},
                                          'detail': {'undisturbed': truth, 'with_stop': got, 'references': side, 'tick': tick, 'check_span': [b, e]}})
        return res

    def shrink_steps(self, case):
        t = case['task']
        idxs = [j for j, x in enumerate(t['commands']) if x.startswith('(assert')]
        if len(idxs) > 1:
            k = 0
            for j in idxs:
                c = copy.deepcopy(case)
                del c['task']['commands'][j]
                del c['task']['refs'][k]
                k += 1
                yield c
        for i in range(len(t['options'])):
            c = copy.deepcopy(case)
            del c['task']['options'][i]
            yield c

    def sample_of(self, case):
        return {'logic': case['task']['logic'], 'options': case['task']['options'], 'asserts': case['task']['refs'][:4], 'where': case['where'], 'frac': case['frac'], 'scope': case['scope'], 'flavour': case['flavour']}


CHECKS = [C24, C25]
