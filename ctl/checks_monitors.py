"""Monitor properties on engine H: C11 (theory clauses valid), C12 (learnt clauses RUP), C13 (preprocessing), C26 (Farkas)."""
from . import gen, hist
from .hbase import HistCheck, answer_of
from .refs import RefError, prelude_from_decls, prelude_from_trace_decls, query_text
from .runner import bump, stable_hash, sub_rng


def decls_by_ctx(resp):
    out = {}
    for e in resp.get('log', []):
        if e.get('ev') == 'decl':
            out.setdefault(e['ctx'], []).append(e)
    return out


class C12(HistCheck):
    pid = 'C12'
    monitors = {'rup': True}
    hist_kw = dict(unsat_bias=0.04, defines=0.02, ncmds=(10, 30), clausal=0.9, horn=0.45, hard3=0.6, p_push=0.1, p_pop=0.09, reenter=0.1)
    rule = ('every learnt / final-conflict / strengthened / resolvent / split-unit clause traced by the guarded DRUP-style hooks is checked by reverse unit '
            'propagation inside osim at the moment it is derived, against all input, theory and previously checked clauses; engines default/lookahead/picky/ghost, '
            'SatELite on and off, perturbed restart / reduceDB / GC schedule; non-trivial run = >= 1 derived clause needing >= 2 propagation steps; distinct = hash of (history, config)')

    def oracle(self, ctx, case, info, res):
        mon = next((e for e in info['resp']['log'] if e.get('ev') == 'monitors'), {})
        for e in info['resp']['log']:
            if e.get('ev') == 'clause-violation':
                res['violations'].append({'cls': 'clause-not-rup', 'sig': {'kind': e['kind']}, 'detail': {'lits': e.get('lits'), 'db': e.get('db'), 'solver': e.get('th')}})
                break
        if mon.get('rup_nontrivial', 0) > 0:
            res['nontrivial'] = True
        if mon.get('rup_skipped'):
            bump(res, 'rup-skipped', mon['rup_skipped'])
        res['key'] = self.case_key(case)
        if not mon.get('rup_checked'):
            res['discarded'] = 'no-derived-clause'


class C26(HistCheck):
    pid = 'C26'
    monitors = {'farkas': True}
    profiles = gen.LA_PROFILES
    hist_kw = dict(unsat_bias=0.4, defines=0.03, ncmds=(8, 28), big=0.25)
    rule = ('every LA conflict (LASolver::storeExplanation) is re-computed with exact GMP rationals by an independent linear-term walker: coefficients > 0, variables '
            'cancel, the sum is a false constant inequality (negated integer literals read as the tightened bound); LRA/LIA/UFLRA/UFLIA/array+LA logics, perturbed '
            'schedule incl. early Bland and cut coin; non-trivial = conflict with >= 2 bounds; distinct = hash of (history, config)')

    def oracle(self, ctx, case, info, res):
        mon = next((e for e in info['resp']['log'] if e.get('ev') == 'monitors'), {})
        for e in info['resp']['log']:
            if e.get('ev') == 'farkas-violation':
                res['violations'].append({'cls': e['class'], 'sig': {'n': min(len(e.get('lits', [])), 3)}, 'detail': {'lits': e.get('lits'), 'coeffs': e.get('coeffs')}})
                break
        if mon.get('la_unparsable'):
            bump(res, 'oracle-unparsable-conflict', mon['la_unparsable'])
        if mon.get('la_nontrivial', 0) > 0:
            res['nontrivial'] = True
        res['key'] = self.case_key(case)
        if not mon.get('la_conflicts'):
            res['discarded'] = 'no-la-conflict'


class C11(HistCheck):
    pid = 'C11'
    monitors = {'tclauses': True, 'max_tclauses': 400}
    hist_kw = dict(unsat_bias=0.35, defines=0.03, ncmds=(8, 28))
    MAX_QUERIES = 40
    rule = ('every clause handed from THandler to the SAT engine (conflicts, propagation reasons, splits / array lemmas / interface clauses, root-level deductions with '
            'their level-0 premises), printed by the simulator\'s own term walker and de-duplicated, must be theory-valid: R-truth(negated literals) = unsat; '
            '<= 40 clauses per run chosen by hash order; non-trivial = clause with >= 2 literals; distinct = distinct clause texts')

    def pick_profile(self, rng):
        pool = [p for p in gen.ALL_PROFILES if p != 'PROP']
        return rng.choice(pool)

    # one case in four drives the theory handler directly (engine T): assert / backtrack interleavings that no SAT
    # search produces, with the same theory-clause trace and the same oracle
    def gen_case(self, seed, idx, tier):
        if sub_rng(seed, self.pid, idx, 'engine').random() < 0.25:
            from .checks_theory import C22
            c = C22().gen_case(seed, idx, tier)
            c['pid'] = self.pid
            c['engine'] = 'T'
            return c
        return HistCheck.gen_case(self, seed, idx, tier)

    def run_case(self, ctx, case):
        if case.get('engine') != 'T':
            return HistCheck.run_case(self, ctx, case)
        from .checks_theory import C22
        from .runner import death_of, empty_result, log_hash, sim_ticks
        res = empty_result()
        plan = C22().build_plan(case)
        plan['monitors'] = {'tclauses': True, 'farkas': False, 'max_tclauses': 400}
        resp = ctx.osim('sim').run(plan)
        res['hash'] = log_hash(resp)
        bump(res, 'runs')
        bump(res, 'engine-T-runs')
        bump(res, 'sim-ticks', sim_ticks(resp))
        d = death_of(resp)
        if d and d[0] == 'harness':
            raise RuntimeError('harness: %r' % (d[1],))
        if d:
            res['discarded'] = 'died:' + d[0]
            return res
        try:
            self.oracle(ctx, {'hist': {'logic': case['logic']}}, {'resp': resp}, res)
        except RefError:
            bump(res, 'oracle-error')
        return res

    def shrink_steps(self, case):
        if case.get('engine') == 'T':
            from .checks_theory import C22
            return C22().shrink_steps(case)
        return HistCheck.shrink_steps(self, case)

    def sample_of(self, case):
        if case.get('engine') == 'T':
            return {'engine': 'T', 'logic': case['logic'], 'asserts': case['asserts'][:3], 'ops': case['ops'][:20]}
        return case

    def oracle(self, ctx, case, info, res):
        resp = info['resp']
        decls = decls_by_ctx(resp)
        clauses = [e for e in resp['log'] if e.get('ev') == 'tclause']
        clauses.sort(key=lambda e: stable_hash([e['kind'], e['lits']]))
        keys = set()
        n = 0
        for e in clauses[:self.MAX_QUERIES]:
            prelude = prelude_from_trace_decls(decls.get(e['ctx'], []))
            neg = ['(not %s)' % l for l in e['lits']]
            try:
                truth = ctx.refs.truth(prelude, neg)
            except RefError as err:
                bump(res, 'oracle-error')
                res.setdefault('notes', []).append(str(err)[:200])
                continue
            n += 1
            bump(res, 'tclause:' + e['kind'])
            if truth is None:
                bump(res, 'unresolved')
                continue
            if len(e['lits']) >= 2:
                keys.add(stable_hash(e['lits']))
            if truth == 'sat':
                res['violations'].append({'cls': 'theory-clause-invalid', 'sig': {'kind': e['kind'], 'logic': case['hist']['logic']},
                                          'detail': {'lits': e['lits'], 'refs': ctx.refs.last_raw}})
                break
        res['nontrivial'] = bool(keys)
        res['key'] = stable_hash(sorted(keys)) if keys else None
        res['extra_keys'] = sorted(keys)
        if n == 0:
            res['discarded'] = 'no-theory-clause'


class C13(HistCheck):
    pid = 'C13'
    monitors = {'frames': True}
    hist_kw = dict(unsat_bias=0.25, defines=0.08, ncmds=(8, 26), p_push=0.15, p_pop=0.12, reassert=0.2)
    rule = ('per check-sat: G = conjunction of every root handed to the CNF converter for the live frame ids (guarded hook in MainSolver::giveToSolver), F = conjunction of '
            'the R-stack assertions; R-truth(G and not F) must be unsat and F sat => G sat; whole-frame and per-partition modes, substitutions across levels, ITE, div/mod, '
            'distinct, purification, arrays; non-trivial = some root text differs from every assertion text; distinct = hash of (history, config)')

    def oracle(self, ctx, case, info, res):
        resp = info['resp']
        h = case['hist']
        pre = hist.prefix_len(h, case['options'])
        snaps = hist.snapshots(h['commands'])
        main_ms = next((e['id'] for e in resp['log'] if e.get('ev') == 'ms' and e.get('role') == 'main'), None)
        main_ctx = next((e['ctx'] for e in resp['log'] if e.get('ev') == 'ms' and e.get('role') == 'main'), None)
        decls = decls_by_ctx(resp).get(main_ctx, [])
        user_names = {d['name'] for d in h['decls'] if d['k'] == 'declare-fun'}
        roots = []  # (frame id, text)
        toolarge = False
        compared = 0
        for e in resp['log']:
            if e.get('ev') == 'frame' and e.get('ms') == main_ms and e.get('k') == 'root':
                if e.get('toolarge'):
                    toolarge = True
                else:
                    roots.append((e['frame'], e['t']))
            if e.get('ev') != 'cmd' or e['i'] < pre:
                continue
            i = e['i'] - pre
            if i >= len(h['commands']) or h['commands'][i]['k'] != 'check-sat':
                continue
            if toolarge:
                bump(res, 'root-too-large')
                continue
            if answer_of(e['out']) not in ('sat', 'unsat'):
                # unknown: the solver gave up (e.g. arithmetic overflow, or it refuses to continue after one); it makes no
                # claim about what it handed to the search engine, and may not have handed over anything
                bump(res, 'answer-not-definitive')
                continue
            snap = snaps[i]
            live = set(snap['frames'])
            G = [t for (fid, t) in roots if fid in live]
            F = [a['ref'] for a in snap['asserts']]
            if not F:
                continue
            # declarations seen by the trace so far are a superset of what G needs
            aux = [d for d in decls if d['name'] not in user_names]
            prelude = prelude_from_decls(h['decls'], snap['defs']) + '\n' + prelude_from_trace_decls(aux, skip=()) if aux else prelude_from_decls(h['decls'], snap['defs'])
            # uninterpreted sorts are declared by the user prelude already: drop duplicate declare-sort lines
            seen = set()
            lines = []
            for ln in prelude.split('\n'):
                if ln.startswith('(declare-sort'):
                    if ln in seen:
                        continue
                    seen.add(ln)
                lines.append(ln)
            prelude = '\n'.join(lines)
            notF = '(not (and %s true))' % ' '.join(F)
            t1 = ctx.refs.truth(prelude, G + [notF])
            compared += 1
            if any(t not in F for t in G):
                res['nontrivial'] = True
            if t1 is None:
                bump(res, 'unresolved')
                continue
            if t1 == 'sat':
                res['violations'].append({'cls': 'preprocess-loses-model', 'sig': {'track': bool(set(case.get('tags', {}).get('track', [])) & {'cores', 'interpolants', 'proofs', 'assignments'})},
                                          'detail': {'check_index': i, 'roots': G, 'asserts': F, 'refs': ctx.refs.last_raw}})
                break
            tF = ctx.refs.truth(prelude, F)
            if tF == 'sat':
                tG = ctx.refs.truth(prelude, G)
                if tG == 'unsat':
                    res['violations'].append({'cls': 'preprocess-not-equisat', 'sig': {}, 'detail': {'check_index': i, 'roots': G, 'asserts': F}})
                    break
                if tG is None:
                    bump(res, 'unresolved')
        bump(res, 'compared', compared)
        res['key'] = self.case_key(case)
        if compared == 0:
            res['discarded'] = 'nothing-compared'


CHECKS = [C11, C12, C13, C26]
