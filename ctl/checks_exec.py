"""Engine X checks: C18 (no crash, every problem signalled), C20 (pipe == file), C23 (reproducible runs)."""
import copy
import glob
import os
import re

from . import config as cfg
from . import gen, hist, sexpr
from .runner import Check, VERIF, sim_ticks, bump, death_of, empty_result, log_hash, stable_hash, sub_rng

KNOWN_HEADS = {'set-logic', 'set-option', 'set-info', 'get-info', 'get-option', 'declare-sort', 'declare-fun', 'declare-const', 'define-fun', 'assert', 'check-sat',
               'push', 'pop', 'get-model', 'get-value', 'get-assignment', 'get-unsat-core', 'get-interpolants', 'get-proof', 'echo', 'exit', 'simplify'}

CORPUS = None


def corpus_files():
    global CORPUS
    if CORPUS is None:
        files = sorted(glob.glob('/repo/test/regression/**/*.smt2', recursive=True))
        CORPUS = [f for f in files if os.path.getsize(f) < 6000]
    return CORPUS


def x_plan(script, mode='file', chunks=None, eof_at=None, heap_seed=None, clock=None, args=(), budget=400000000, pid=0, layout=None):
    p = {'id': pid, 'engine': 'X', 'mode': mode, 'script': script, 'args': list(args), 'budget_ticks': budget, 'cpu_s': 60, 'wall_s': 600}
    if chunks is not None:
        p['chunks'] = chunks
    if eof_at is not None:
        p['eof_at'] = eof_at
    if heap_seed is not None:
        p['heap_seed'] = heap_seed
    if clock is not None:
        p['clock'] = clock
    if layout is not None:
        p['layout'] = layout
    return p


def x_outcome(resp):
    """(stdout bytes-as-str, exit status, death)"""
    d = death_of(resp)
    rc = None
    for e in resp.get('log', []):
        if e.get('ev') == 'x-return':
            rc = e['rc']
    if rc is None and not d:
        rc = resp.get('exit')
    return resp.get('stdout', ''), rc, d


def gen_script(seed, pid, idx, profiles=None, queries=True, printing=False, unsupported_queries=0.0, xnames=0.125):
    """A valid script from the history generator with a configuration prefix."""
    r = sub_rng(seed, pid, idx, 'script-prof')
    prof = r.choice(profiles or gen.ALL_PROFILES)
    need = []
    q = []
    if queries:
        need = ['models']
        q = [('get-model', 0.5), ('get-value', 0.4)]
        rq = sub_rng(seed, pid, idx, 'script-need')
        if rq.random() < 0.5:
            need.append('cores')
            q.append(('get-unsat-core', 0.6))
        if rq.random() < 0.3 and prof in gen.ITP_PROFILES:
            need.append('interpolants')
            q.append(('get-interpolants', 0.5))
        if rq.random() < 0.3 and 'interpolants' not in need:
            need.append('proofs')
            q.append(('get-proof', 0.5))
        if rq.random() < 0.3:
            need.append('assignments')
            q.append(('get-assignment', 0.5))
    opts, knobs, unusual, tags = cfg.gen_config(sub_rng(seed, pid, idx, 'script-config'), need=need, perturb=True)
    kw = dict(unsat_bias=0.3, named=0.4, nested_named=0.05, defines=0.05, queries=tuple(q), xnames=xnames)
    if not tags['incremental']:
        kw['max_push'] = 0
    if prof not in gen.MODEL_PROFILES and not (sub_rng(seed, pid, idx, 'script-unsupported').random() < unsupported_queries):
        # (C18 keeps them sometimes: a model query in an array logic is an unsupported request that must be answered with an error)
        kw['queries'] = tuple(x for x in q if x[0] not in ('get-model', 'get-value'))
    h = hist.gen_history(sub_rng(seed, pid, idx, 'script-hist'), prof, **kw)
    return hist.script_lines(h, opts), prof, tags


# ------------------------------------------------------------------------------------------- C20
def layout_noise(rng, lines):
    """Re-lay out a valid script: comments with ( ) " | ;, echo strings, quoted symbols, odd whitespace, text after exit."""
    out = []
    tricky_comments = ['; plain comment', '; ( unbalanced', ';)) closing', '; "quote in comment', '; |bar in comment', ';; (assert false)', '; a ; b ( | " )']
    tricky_strings = ['"hello"', '"(paren"', '")"', '"semi;colon"', '"|bar"', '"( ; | )"', '"multi\nline"']
    tricky_qsyms = ['|q(a|', '|q)b|', '|q;c|', '|q"d|', '|q e|', '|q\nf|', '|q;(g)|']
    decl_q = []
    for ln in lines:
        # split a command across lines / pad
        c = rng.random()
        if c < 0.15:
            ln = ln.replace(' ', '\n  ', 1)
        elif c < 0.3:
            ln = ln.replace(' ', rng.choice(['  ', '\t', ' \n ']), rng.randint(1, 3))
        pre = ''
        if rng.random() < 0.25:
            pre = rng.choice(tricky_comments) + '\n'
        post = ''
        c = rng.random()
        if c < 0.15:
            post = ' ' + rng.choice(tricky_comments)
        elif c < 0.3:
            post = ' (echo %s)' % rng.choice(tricky_strings)
        elif c < 0.38:
            post = ' (set-info :source %s)' % rng.choice(tricky_qsyms + tricky_strings)
        out.append(pre + ln + post)
        if ln.startswith('(set-logic') and rng.random() < 0.6:
            q = rng.choice(tricky_qsyms)
            if q not in decl_q:
                decl_q.append(q)
                out.append('(declare-fun %s () Bool)' % q)
                out.append('(assert (or %s (not %s)))' % (q, q))
    sep = lambda: rng.choice(['\n', '\n', ' ', '\n\n', '\t\n'])
    text = ''
    for ln in out:
        text += ln + sep()
    if rng.random() < 0.3:
        text += '(exit)\n' + rng.choice(['(check-sat)\n', '; trailing (\n', '(echo "after exit")\n', '(echo ")")'])
    return text


def chunk_plan(rng, text):
    """Read sizes for the stdin seam: 1-byte reads, boundaries right before/after ( ) " | ; newline, buffer-doubling sizes, one huge read."""
    n = len(text)
    style = rng.choice(['ones', 'special', 'pow2', 'random', 'huge', 'mixed'])
    if style == 'ones':
        return [1] * min(n, 4000)
    if style == 'huge':
        return [n + 10]
    if style == 'pow2':
        return [rng.choice([15, 16, 17, 31, 32, 33, 63, 64, 65]) for _ in range(n // 8 + 2)]
    if style == 'random':
        return [rng.randint(1, 40) for _ in range(n // 4 + 2)]
    cuts = set()
    for i, ch in enumerate(text):
        if ch in '()"|;\n' and rng.random() < (0.5 if style == 'special' else 0.2):
            cuts.add(i if rng.random() < 0.5 else i + 1)
    if style == 'mixed':
        for _ in range(rng.randint(0, 20)):
            cuts.add(rng.randint(1, max(1, n - 1)))
    cuts = sorted(c for c in cuts if 0 < c < n)
    sizes = []
    prev = 0
    for c in cuts:
        sizes.append(c - prev)
        prev = c
    sizes.append(n - prev + 5)
    return [s for s in sizes if s > 0]


def lexical_state_at(text, pos):
    """comment / string / qsym / token / gap at byte offset pos (for reach probes)."""
    st = 'gap'
    i = 0
    while i < pos and i < len(text):
        ch = text[i]
        if st == 'comment':
            if ch == '\n':
                st = 'gap'
        elif st == 'string':
            if ch == '"':
                st = 'gap'
        elif st == 'qsym':
            if ch == '|':
                st = 'gap'
        else:
            if ch == ';':
                st = 'comment'
            elif ch == '"':
                st = 'string'
            elif ch == '|':
                st = 'qsym'
            elif ch in ' \t\r\n()':
                st = 'gap'
            else:
                st = 'token'
        i += 1
    return st


def lexical_states(text, positions):
    """lexical_state_at for many (sorted or unsorted) offsets in one pass."""
    want = sorted(set(positions))
    out = {}
    st = 'gap'
    k = 0
    n = len(text)
    for i in range(n + 1):
        while k < len(want) and want[k] <= i:
            out[want[k]] = st
            k += 1
        if k >= len(want) or i >= n:
            break
        ch = text[i]
        if st == 'comment':
            if ch == '\n':
                st = 'gap'
        elif st == 'string':
            if ch == '"':
                st = 'gap'
        elif st == 'qsym':
            if ch == '|':
                st = 'gap'
        else:
            if ch == ';':
                st = 'comment'
            elif ch == '"':
                st = 'string'
            elif ch == '|':
                st = 'qsym'
            elif ch in ' \t\r\n()':
                st = 'gap'
            else:
                st = 'token'
    for w in want[k:]:
        out[w] = st
    return out


class C20(Check):
    pid = 'C20'
    technique = 'deterministic simulation of stdin delivery: the read(2) seam serves the script in seeded chunk sizes to the real main() in pipe mode; oracle = file mode on the same bytes'
    rule = ('syntactically valid scripts (valid = accepted by file mode) with seeded layout noise (comments, strings and quoted symbols containing parentheses, semicolons, quotes, newlines; '
            'several commands per line; text after exit) delivered through the read seam in seeded chunkings (1-byte, at lexical boundaries, buffer-doubling sizes, one read); '
            'stdout and exit status of pipe mode must equal file mode and be chunking-invariant; non-trivial = >= 2 reads and a boundary strictly inside a command; distinct = hash of (script, chunks)')

    def gen_case(self, seed, idx, tier):
        lines, prof, tags = gen_script(seed, self.pid, idx, queries=True)
        r = sub_rng(seed, self.pid, idx, 'layout')
        text = layout_noise(r, lines)
        return {'pid': self.pid, 'idx': idx, 'script': text, 'chunks': chunk_plan(sub_rng(seed, self.pid, idx, 'chunks'), text),
                'chunks2': chunk_plan(sub_rng(seed, self.pid, idx, 'chunks2'), text)}

    def run_case(self, ctx, case):
        res = empty_result()
        o = ctx.osim('sim')
        rf = o.run(x_plan(case['script'], 'file'))
        rp = o.run(x_plan(case['script'], 'pipe', chunks=case['chunks']))
        rp2 = o.run(x_plan(case['script'], 'pipe', chunks=case['chunks2']))
        res['hash'] = stable_hash([log_hash(rf), log_hash(rp), log_hash(rp2)])
        bump(res, 'runs', 3)
        bump(res, 'sim-ticks', sim_ticks(rf) + sim_ticks(rp) + sim_ticks(rp2))
        of, cf, df = x_outcome(rf)
        op, cp, dp = x_outcome(rp)
        op2, cp2, dp2 = x_outcome(rp2)
        for d in (df, dp, dp2):
            if d and d[0] == 'harness':
                raise RuntimeError('harness: %r' % (d[1],))
        if df or re.search(r'^At line \d+: syntax error', of, re.M):
            res['discarded'] = 'not-accepted-by-file-mode' if not df else 'file-mode-died:' + df[0]
            return res
        xe = next((e for e in rp.get('log', []) if e.get('ev') == 'x-exit'), None)
        if xe:
            bump(res, 'F-chunk-reads', xe['reads'])
            inside = False
            bounds = xe.get('boundaries', [])[:-1]
            states = lexical_states(case['script'], bounds)
            for bpos in bounds:
                st = states[bpos]
                bump(res, 'P-chunk-in-' + st)
                if st != 'gap':
                    inside = True
            if xe['reads'] >= 2 and (inside or len(xe.get('boundaries', [])) > 2):
                res['nontrivial'] = True
        res['key'] = stable_hash([case['script'], case['chunks']])
        if dp or dp2:
            res['violations'].append({'cls': 'pipe-differs-from-file', 'sig': {'how': 'pipe-died:' + (dp or dp2)[0]}, 'detail': {'death': str(dp or dp2)[:200]}})
            return res
        if (op, cp) != (of, cf):
            res['violations'].append({'cls': 'pipe-differs-from-file', 'sig': {'how': self.diff_kind(of, op, cf, cp)}, 'detail': {'file': [of[-400:], cf], 'pipe': [op[-400:], cp]}})
        elif (op2, cp2) != (op, cp):
            res['violations'].append({'cls': 'chunking-changes-output', 'sig': {'how': self.diff_kind(op, op2, cp, cp2)}, 'detail': {'a': [op[-400:], cp], 'b': [op2[-400:], cp2]}})
        return res

    @staticmethod
    def diff_kind(a, b, ca, cb):
        if a == b:
            return 'exit-status'
        la, lb = a.split('\n'), b.split('\n')
        for x, y in zip(la, lb):
            if x != y:
                return 'line:' + ('error' if '(error' in x or '(error' in y else 'other')
        return 'length'

    def shrink_steps(self, case):
        # fewer chunks, then shorter script (whole lines)
        for key in ('chunks', 'chunks2'):
            if len(case[key]) > 1:
                c = copy.deepcopy(case)
                c[key] = [sum(case[key]) + 10]
                yield c
        lines = case['script'].split('\n')
        n = len(lines)
        size = n // 2
        while size >= 1:
            for start in range(n - size, -1, -size):
                c = copy.deepcopy(case)
                c['script'] = '\n'.join(lines[:start] + lines[start + size:])
                yield c
            size //= 2

    def sample_of(self, case):
        return {'script': case['script'][:600], 'chunks': case['chunks'][:40]}


# ------------------------------------------------------------------------------------------- C23
class C23(Check):
    pid = 'C23'
    technique = 'deterministic simulation of address-space layout, heap contents and clock: seeded heap layer (padding + garbage fill), simulated ASLR (seeded stack / brk / mmap offsets with real ASLR off), simulated getrusage; byte comparison of outputs'
    rule = ('scripts with every printing query enabled (models, values, assignments, cores, interpolants, proofs) under all engines; the same script + options + :random-seed is run under '
            'two heap-layout seeds, under two simulated address-space layouts (seeded offsets of stack, brk heap and mmap area; real ASLR off so that the layout is a function of the plan) '
            'and under a different simulated clock; stdout bytes and exit status must be identical; '
            'non-trivial = output >= 200 bytes containing a model, core, interpolant or proof; distinct = hash of script')

    def gen_case(self, seed, idx, tier):
        # (models of uninterpreted functions next to constants named like their formal arguments: the printer has to rename)
        lines, prof, tags = gen_script(seed, self.pid, idx, queries=True, xnames=0.5,
                                       profiles=gen.ALL_PROFILES + ['QF_UF', 'QF_UFLRA', 'QF_UFLIA', 'QF_UFIDL', 'QF_UF', 'QF_UFLRA'])
        r = sub_rng(seed, self.pid, idx, 'var')
        case = {'pid': self.pid, 'idx': idx, 'script': '\n'.join(lines) + '\n', 'heap_a': r.randint(1, 2 ** 31), 'heap_b': r.randint(1, 2 ** 31),
                'clock_b': {'ns_per_tick': r.choice([1, 50, 100000]), 'jumps': [[r.randint(10, 100000), r.choice([10 ** 9, 10 ** 12])]]}, 'mode': r.choice(['file', 'file', 'pipe'])}
        rl = sub_rng(seed, self.pid, idx, 'layout')
        case['layout_a'] = {'stack': 16 * rl.randint(0, 4096), 'brk': 16 * rl.randint(0, 1 << 16), 'mmap': 4096 * rl.randint(0, 1 << 12)}
        case['layout_c'] = {'stack': 16 * rl.randint(0, 65536), 'brk': 16 * rl.randint(0, 1 << 20), 'mmap': 4096 * rl.randint(0, 1 << 16)}
        return case

    def run_case(self, ctx, case):
        res = empty_result()
        # every run is executed with real ASLR off (setarch -R): the address-space layout is then a function of the plan
        # (heap seed for the placement / contents of heap blocks, 'layout' for the simulated ASLR offsets of stack, brk and mmap)
        o = ctx.osim('sim', key='sim-noaslr', prefix=['setarch', 'x86_64', '-R'], clean_env=True, oneshot=True)
        mode = case['mode']
        base_clock = {'ns_per_tick': 1000, 'jumps': []}
        la, lc = case.get('layout_a'), case.get('layout_c')
        ra = o.run(x_plan(case['script'], mode, heap_seed=case['heap_a'], clock=base_clock, layout=la))
        rb = o.run(x_plan(case['script'], mode, heap_seed=case['heap_b'], clock=base_clock, layout=la))
        rc = o.run(x_plan(case['script'], mode, heap_seed=case['heap_a'], clock=base_clock, layout=lc))
        rd = o.run(x_plan(case['script'], mode, heap_seed=case['heap_a'], clock=case['clock_b'], layout=la))
        res['hash'] = stable_hash([log_hash(ra), log_hash(rb), log_hash(rc), log_hash(rd)])
        bump(res, 'runs', 4)
        bump(res, 'sim-ticks', sum(sim_ticks(r) for r in (ra, rb, rc, rd)))
        outs = [x_outcome(r) for r in (ra, rb, rc, rd)]
        for (_, _, d) in outs:
            if d and d[0] == 'harness':
                raise RuntimeError('harness: %r' % (d[1],))
        xe = next((e for e in ra.get('log', []) if e.get('ev') == 'x-exit'), None)
        if xe:
            bump(res, 'F-heap-allocs', xe.get('allocs', 0))
            bump(res, 'F-clock-reads', xe.get('clock_reads', 0))
        bump(res, 'F-aslr-simulated-layout-runs')
        out_a = outs[0][0]
        if len(out_a) >= 200 and ('define-fun' in out_a or '(proof' in out_a or re.search(r'^\([a-z0-9 ]+\)$', out_a, re.M)):
            res['nontrivial'] = True
        res['key'] = stable_hash(case['script'])
        if any(o[2] for o in outs):
            # a crash is C18's finding, and where (or whether) a memory error strikes legitimately depends on the layout:
            # reproducibility is judged on runs that all terminated normally
            bump(res, 'died:' + next(o[2][0] for o in outs if o[2]))
            res['discarded'] = 'a-variant-died'
            return res
        names = ['layout', 'aslr', 'clock']
        for k, name in zip((1, 2, 3), names):
            if (outs[k][0], outs[k][1], bool(outs[k][2])) != (outs[0][0], outs[0][1], bool(outs[0][2])):
                res['violations'].append({'cls': 'output-depends-on-' + name, 'sig': {'what': C20.diff_kind(outs[0][0], outs[k][0], outs[0][1], outs[k][1])},
                                          'detail': {'a': [outs[0][0][-500:], outs[0][1], str(outs[0][2])], 'b': [outs[k][0][-500:], outs[k][1], str(outs[k][2])]}})
                break
        return res

    def shrink_steps(self, case):
        lines = case['script'].split('\n')
        n = len(lines)
        size = n // 2
        while size >= 1:
            for start in range(n - size, -1, -size):
                c = copy.deepcopy(case)
                c['script'] = '\n'.join(lines[:start] + lines[start + size:])
                yield c
            size //= 2

    def sample_of(self, case):
        return {'script': case['script'][:800], 'heap_a': case['heap_a'], 'heap_b': case['heap_b'], 'clock_b': case['clock_b']}


# ------------------------------------------------------------------------------------------- C18
def damage(rng, text):
    """Returns (damaged text, damage description). Faults: truncation, byte flip / deletion / duplication near token boundaries."""
    n = len(text)
    kinds = []
    t = text
    for _ in range(rng.randint(1, 3)):
        if not t:
            break
        n = len(t)
        special = [i for i, ch in enumerate(t) if ch in '()"|;:!. -0123456789']
        pos = rng.choice(special) if special and rng.random() < 0.7 else rng.randint(0, n - 1)
        k = rng.choice(['truncate', 'flip', 'delete', 'dup', 'insert', 'sexpr-dup', 'sexpr-replace', 'token-swap', 'line-move', 'tail-garbage'])
        kinds.append(k)
        if k == 'tail-garbage':
            # something left over after the last complete command (depth 0): an opened string / quoted symbol / parenthesis that
            # never closes, a stray closing parenthesis or token, a comment without newline
            t = t.rstrip('\n') + rng.choice(['\n', ' ', '\n\n']) + rng.choice(['"', '|', '"abc', '|q r', '(', ')', 'abc', '; comment', '(exit', '(check-sat', '"" "', '\x00', '#b01'])
            continue
        if k in ('sexpr-dup', 'sexpr-replace'):
            # structural damage that keeps the text well-formed: an s-expression is duplicated in place (repeated argument,
            # duplicate let binder, command given twice) or overwritten by a copy of another one (ill-sorted term, wrong arity,
            # command in the wrong place)
            spans = sexpr_spans(t)
            if len(spans) >= 2:
                a, b = rng.choice(spans)
                if k == 'sexpr-dup':
                    t = t[:b] + ' ' + t[a:b] + t[b:]
                else:
                    c, e = rng.choice(spans)
                    if not (c <= a < e or a <= c < b):
                        t = t[:a] + t[c:e] + t[b:]
            continue
        if k == 'token-swap':
            # a symbol is replaced by another symbol of the same script (unknown / ill-sorted / shadowing names, other option or command)
            toks = [(m.start(), m.end()) for m in re.finditer(r"[A-Za-z_.:][A-Za-z0-9_.\-]*", t)]
            if len(toks) >= 2:
                (a, b), (c, e) = rng.choice(toks), rng.choice(toks)
                t = t[:a] + t[c:e] + t[b:]
            continue
        if k == 'line-move':
            # command order: one line is moved (or copied) somewhere else
            ls = t.split('\n')
            if len(ls) >= 3:
                i, j = rng.randrange(len(ls)), rng.randrange(len(ls))
                ln = ls[i] if rng.random() < 0.5 else ls.pop(i)
                ls.insert(min(j, len(ls)), ln)
                t = '\n'.join(ls)
            continue
        if k == 'truncate':
            t = t[:pos]
        elif k == 'flip':
            t = t[:pos] + rng.choice('()"|;x0 -!:.\n\x00\xff') + t[pos + 1:]
        elif k == 'delete':
            t = t[:pos] + t[pos + rng.randint(1, 3):]
        elif k == 'dup':
            m = rng.randint(1, 12)
            t = t[:pos] + t[pos:pos + m] + t[pos:]
        else:
            t = t[:pos] + rng.choice(['(', ')', '"', '|', '(assert', '(check-sat)', ' 99999999999999999999999 ', '(/ 1 0)', '(push 100000)', '(pop 7)', '(get-model)', '(* x x)', '(set-logic QF_BV)', '(exit)']) + t[pos:]
    return t, kinds


def sexpr_spans(text):
    """(start, end) of every balanced parenthesised expression, skipping comments, string literals and quoted symbols."""
    spans, stack, st, i, n = [], [], None, 0, len(text)
    while i < n:
        ch = text[i]
        if st == 'c':
            if ch == '\n':
                st = None
        elif st == 's':
            if ch == '"':
                st = None
        elif st == 'q':
            if ch == '|':
                st = None
        elif ch == ';':
            st = 'c'
        elif ch == '"':
            st = 's'
        elif ch == '|':
            st = 'q'
        elif ch == '(':
            stack.append(i)
        elif ch == ')' and stack:
            spans.append((stack.pop(), i + 1))
        i += 1
    return spans


def expected_problem(text):
    """Independent structural check: is the delivered text certainly malformed?"""
    if not sexpr.structurally_ok(text):
        return 'unbalanced-or-unterminated'
    return None


class C18(Check):
    pid = 'C18'
    flavours = ('sim', 'asan')
    technique = 'deterministic fault injection on the input stream of the real main(): truncation, byte flips/deletions/duplications, short reads; plain and ASan+UBSan builds'
    rule = ('valid scripts (history generator over all logics/configurations, and regression-corpus files < 6 KB) delivered undamaged or damaged (EOF at a seeded byte, 1-3 byte flips / '
            'deletions / duplications / token insertions biased to token boundaries), as file and as pipe with seeded chunking, plain and ASan+UBSan builds; no signal / abort / uncaught '
            'exception / sanitizer report; a structurally malformed input or any diagnostic printed must give a diagnostic on stdout and a non-zero exit status; texts <= 4 KB without check-sat '
            'end within 2*10^7 ticks; non-trivial = damage landed strictly inside a command; distinct = hash of (delivered text, mode)')
    jobs = 12

    def gen_case(self, seed, idx, tier):
        r = sub_rng(seed, self.pid, idx, 'src')
        files = corpus_files()
        if files and r.random() < 0.35:
            path = r.choice(files)
            base = open(path, errors='replace').read()
            src = os.path.relpath(path, '/repo')
        else:
            lines, prof, tags = gen_script(seed, self.pid, idx, queries=True, unsupported_queries=0.5)
            base = '\n'.join(lines) + '\n'
            src = 'generated:' + prof
        rd = sub_rng(seed, self.pid, idx, 'damage')
        if rd.random() < 0.25:
            text, kinds = base, []
        else:
            text, kinds = damage(rd, base)
        mode = rd.choice(['file', 'pipe'])
        case = {'pid': self.pid, 'idx': idx, 'script': text, 'damage': kinds, 'mode': mode, 'source': src, 'flavour': 'asan' if rd.random() < 0.3 else 'sim'}
        if mode == 'pipe':
            case['chunks'] = chunk_plan(sub_rng(seed, self.pid, idx, 'chunks'), text) if text else [1]
        return case

    def run_case(self, ctx, case):
        res = empty_result()
        text = case['script']
        no_check = 'check-sat' not in text
        budget = 20000000 if (no_check and len(text) <= 4096) else 400000000
        flav = case.get('flavour', 'sim')
        plan = x_plan(text, case['mode'], chunks=case.get('chunks'), budget=budget)
        if flav == 'asan':
            plan['cpu_s'] = 120
        resp = ctx.osim(flav).run(plan)
        res['hash'] = log_hash(resp) if flav == 'sim' else stable_hash([resp.get('stdout'), resp.get('exit'), resp.get('sig')])
        bump(res, 'runs')
        bump(res, 'sim-ticks', sim_ticks(resp))
        bump(res, 'flavour:' + flav)
        for k in case['damage']:
            bump(res, 'F-' + ('eof' if k == 'truncate' else 'flip:' + k))
        if case['mode'] == 'pipe':
            bump(res, 'F-chunk-runs')
        out, rc, d = x_outcome(resp)
        if d and d[0] == 'harness':
            raise RuntimeError('harness: %r' % (d[1],))
        res['key'] = stable_hash([text, case['mode']])
        res['nontrivial'] = bool(case['damage'])
        stderr = resp.get('stderr', '')
        if d:
            kind = d[0]
            if kind == 'LIVENESS':
                if no_check and len(text) <= 4096:
                    res['violations'].append({'cls': 'no-check-sat-not-prompt', 'sig': {}, 'detail': {'ticks': '>2e7'}})
                else:
                    res['discarded'] = 'tick-budget-with-check-sat'
                return res
            if kind in ('CPU', 'WALL'):
                res['discarded'] = 'cpu-limit'
                return res
            frame = self.top_frame(stderr, resp)
            res['violations'].append({'cls': 'crash', 'sig': dict({'kind': kind, 'where': frame}, **self.cause_features(text)), 'detail': {'death': str(d)[:300], 'stderr': stderr[-1500:], 'stdout': out[-300:]}})
            return res
        if 'runtime error:' in stderr or 'AddressSanitizer' in stderr:
            res['violations'].append({'cls': 'crash', 'sig': {'kind': 'SANITIZER', 'where': self.top_frame(stderr, resp)}, 'detail': {'stderr': stderr[-1500:]}})
            return res
        printed_diag = bool(re.search(r'\(error |[Ss]yntax error|unbalanced parentheses', out))
        problem = expected_problem(text)
        if problem and case['mode'] == 'pipe':
            # in pipe mode text after (exit) is never read: judge only what precedes a top-level (exit)
            pass
        if problem and not printed_diag and not self.exit_before_problem(text):
            res['violations'].append({'cls': 'problem-without-diagnostic', 'sig': {'mode': case['mode'], 'problem': problem}, 'detail': {'stdout': out[-400:], 'exit': rc}})
            return res
        if (problem or printed_diag) and rc == 0 and not (problem and self.exit_before_problem(text) and not printed_diag):
            res['violations'].append({'cls': 'problem-with-zero-exit', 'sig': {'mode': case['mode'], 'diag': self.diag_kind(out)}, 'detail': {'stdout': out[-400:], 'exit': rc}})
        return res

    @staticmethod
    def cause_features(text):
        """Cause attributes of a crash read off the delivered script: which search engine it selects and whether it ever pushes
        an assertion level (the lookahead engines are known to stop with an incomplete assignment after push/pop)."""
        eng = 'default'
        if re.search(r'\(set-option\s+:ghost-vars\s+true', text):
            eng = 'ghost'
        elif re.search(r'\(set-option\s+:pure-lookahead\s+true', text):
            eng = 'lookahead'
        elif re.search(r'\(set-option\s+:picky\s+true', text):
            eng = 'picky'
        return {'engine': eng, 'pushed': bool(re.search(r'\(push\b', text))}

    @staticmethod
    def exit_before_problem(text):
        """True if a complete top-level (exit) command precedes the first structural problem (then the rest is legitimately ignored)."""
        i = text.find('(exit)')
        return i >= 0 and sexpr.structurally_ok(text[:i])

    @staticmethod
    def diag_kind(out):
        m = re.search(r'\(error "([^"\n]{0,40})', out)
        if m:
            return re.sub(r'[0-9]+', 'N', m.group(1))[:30]
        if 'syntax error' in out:
            return 'syntax error'
        return 'other'

    @staticmethod
    def top_frame(stderr, resp):
        m = re.search(r'#\d+ 0x[0-9a-f]+ in ([^\n(]+)', stderr)
        if m:
            return m.group(1).strip()[:80]
        m = re.search(r'SUMMARY: \w+: ([^\n]+)', stderr)
        if m:
            return re.sub(r'0x[0-9a-f]+', '', m.group(1))[:80]
        for e in resp.get('log', []):
            if e.get('ev') == 'death':
                return e.get('kind')
        return 'unknown'

    def shrink_steps(self, case):
        text = case['script']
        if case.get('chunks') and len(case['chunks']) > 1:
            c = copy.deepcopy(case)
            c['chunks'] = [len(text) + 10]
            yield c
        lines = text.split('\n')
        n = len(lines)
        size = n // 2
        while size >= 1:
            for start in range(n - size, -1, -size):
                c = copy.deepcopy(case)
                c['script'] = '\n'.join(lines[:start] + lines[start + size:])
                yield c
            size //= 2

    def sample_of(self, case):
        return {'source': case['source'], 'mode': case['mode'], 'damage': case['damage'], 'script_tail': case['script'][-300:], 'chunks': (case.get('chunks') or [])[:20]}


CHECKS = [C18, C20, C23]
