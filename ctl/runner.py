"""simctl core: osim fork-server wrapper, worker pool, determinism sampling, shrinking, reproduction gate,
known-findings matching, evidence writer."""
import hashlib
import json
import multiprocessing as mp
import os
import random
import subprocess
import sys
import time
import traceback

VERIF = os.path.dirname(os.path.dirname(os.path.abspath(__file__)))
BUILD = os.path.join(VERIF, 'build')


def stable_hash(obj):
    return hashlib.sha1(json.dumps(obj, sort_keys=True, separators=(',', ':')).encode()).hexdigest()


def sub_rng(seed, *names):
    """Independent PRNG stream per (seed, names...) so that removing one stream does not shift the others."""
    h = hashlib.sha256(('%d|' % seed + '|'.join(str(n) for n in names)).encode()).digest()
    return random.Random(int.from_bytes(h[:8], 'big'))


# ------------------------------------------------------------------------------------------- osim
class Osim:
    load_dependent_ends = 0   # per worker process

    def __init__(self, flavour='sim', env=None, prefix=None, clean_env=False, oneshot=False):
        self.oneshot = oneshot       # one freshly exec'ed process per plan: no server history in the address space at all
        self.clean_env = clean_env   # fixed minimal environment: the initial stack address then does not depend on the caller's
        self.flavour = flavour
        self.path = os.path.join(BUILD, flavour, 'osim')
        self.env = env
        self.prefix = prefix or []
        self.proc = None
        self.runs = 0

    def start(self):
        e = {'PATH': '/usr/bin:/bin', 'LANG': 'C'} if self.clean_env else dict(os.environ)
        if self.env:
            e.update(self.env)
        self.proc = subprocess.Popen(self.prefix + [self.path, 'serve'], stdin=subprocess.PIPE, stdout=subprocess.PIPE, stderr=subprocess.DEVNULL, env=e)

    def run(self, plan):
        if self.oneshot:
            e = {'PATH': '/usr/bin:/bin', 'LANG': 'C'} if self.clean_env else dict(os.environ)
            if self.env:
                e.update(self.env)
            try:
                r = subprocess.run(self.prefix + [self.path, 'run', '-'], input=(json.dumps(plan, separators=(',', ':')) + '\n').encode(), stdout=subprocess.PIPE,
                                   stderr=subprocess.DEVNULL, env=e, timeout=plan.get('wall_s', 120) + 60)
                out = r.stdout
            except subprocess.TimeoutExpired:
                out = b''
            if not out.strip():
                return {'id': plan.get('id'), 'harness_error': 'osim run produced nothing', 'log': [], 'exit': -1, 'sig': 0, 'stdout': '', 'stderr': ''}
            self.runs += 1
            r = json.loads(out.decode(errors='replace').strip().splitlines()[-1])
            if r.get('wall_timeout') or r.get('sig') == 24:
                Osim.load_dependent_ends += 1
            return r
        if self.proc is None or self.proc.poll() is not None:
            self.start()
        line = json.dumps(plan, separators=(',', ':')) + '\n'
        try:
            self.proc.stdin.write(line.encode())
            self.proc.stdin.flush()
            resp = self.proc.stdout.readline()
        except (BrokenPipeError, OSError):
            resp = b''
        if not resp:
            self.close()
            return {'id': plan.get('id'), 'harness_error': 'osim server died', 'log': [], 'exit': -1, 'sig': 0, 'stdout': '', 'stderr': ''}
        self.runs += 1
        r = json.loads(resp)
        if r.get('wall_timeout') or r.get('sig') == 24:
            Osim.load_dependent_ends += 1     # ended by a wall-clock / CPU-time backstop: depends on machine load, not on the plan
        return r

    def close(self):
        if self.proc is not None:
            try:
                self.proc.stdin.close()
                self.proc.wait(timeout=5)
            except Exception:
                self.proc.kill()
            self.proc = None


def log_hash(resp):
    """Hash that defines 'the same execution': everything the child logged plus how it ended."""
    # 'allocs' (number of heap-layer allocations) is excluded: it counts the harness's own temp-file path handling too
    log = [{k: v for k, v in e.items() if k != 'allocs'} if isinstance(e, dict) and 'allocs' in e else e for e in resp.get('log', [])]
    return stable_hash({'log': log, 'exit': resp.get('exit'), 'sig': resp.get('sig'), 'stdout': resp.get('stdout')})


def sim_ticks(resp):
    """Logical time (ticks) covered by a run, from whatever the engine logged."""
    t = 0
    for e in resp.get('log', []):
        ev = e.get('ev')
        if ev in ('run-end', 'x-exit') and 'ticks' in e:
            t = max(t, e['ticks'])
        elif ev == 'task' and 'ticks' in e:
            t += e['ticks']
    return t


def death_of(resp):
    """How a run died, or None. Classification used by every engine."""
    if resp.get('harness_error'):
        return ('harness', resp['harness_error'])
    for e in resp.get('log', []):
        if e.get('ev') == 'death':
            return (e['kind'], e)
        if e.get('ev') == 'harness-error':
            return ('harness', e.get('what'))
    if resp.get('wall_timeout'):
        return ('WALL', None)
    sig = resp.get('sig', 0)
    if sig:
        if sig == 24:
            return ('CPU', None)
        return ('SIGNAL', sig)
    ex = resp.get('exit', 0)
    if ex in (77, 78):
        return ('SANITIZER', ex)
    return None


# ------------------------------------------------------------------------------------------- check base class
class Ctx:
    """What a check gets to run a case: osim servers (lazily started per flavour) and the reference solvers."""

    def __init__(self):
        self.osims = {}
        self._refs = None

    def osim(self, flavour='sim', key=None, **kw):
        k = key or flavour
        if k not in self.osims:
            self.osims[k] = Osim(flavour, **kw)
        return self.osims[k]

    @property
    def refs(self):
        if self._refs is None:
            from .refs import Refs
            self._refs = Refs()
        return self._refs

    def close(self):
        for o in self.osims.values():
            o.close()
        self.osims = {}


class Check:
    """Base class. A *case* is a JSON-serialisable dict; run_case is a pure function of the case."""
    pid = 'C00'
    flavours = ('sim',)
    technique = 'deterministic simulation'
    rule = ''
    assumptions = []
    # The quick and thorough tiers explore a *fixed set of case indices* (0 .. N-1 for the given seed), not "whatever fits into
    # a minute": a run on a faster or slower machine then judges exactly the same cases as the runs the registered evidence
    # and the triage of the unchanged tree come from. The time budget is only a backstop for a slow or loaded machine (it can
    # cut the set short, never extend it).
    quick_budget_s = 200
    thorough_budget_s = 2400
    jobs = 16
    max_cases = None

    def gen_case(self, seed, idx, tier):
        raise NotImplementedError

    def run_case(self, ctx, case):
        """returns dict: violations [ {cls, sig, detail} ], nontrivial bool, key (distinctness), discarded (str|None),
        counters {name:int}, hash (execution hash)"""
        raise NotImplementedError

    def shrink_steps(self, case):
        """Yields candidate smaller cases (generic structure-aware shrinking)."""
        return iter(())

    def sample_of(self, case):
        return case


def empty_result():
    return {'violations': [], 'nontrivial': False, 'key': None, 'discarded': None, 'counters': {}, 'hash': None}


def bump(res, name, n=1):
    res['counters'][name] = res['counters'].get(name, 0) + n


# ------------------------------------------------------------------------------------------- workers
def _worker(check, seed, tier, wid, nworkers, deadline, max_cases, outq, det_rate):
    ctx = Ctx()
    try:
        idx = wid
        while time.time() < deadline and (max_cases is None or idx < max_cases):
            try:
                case = check.gen_case(seed, idx, tier)
                t0 = time.time()
                lde0 = Osim.load_dependent_ends
                res = check.run_case(ctx, case)
                res['idx'] = idx
                res['wall'] = time.time() - t0
                # determinism sampling: re-run a fraction of the cases and compare execution hashes
                dr = sub_rng(seed, 'det', idx).random()
                if Osim.load_dependent_ends != lde0:
                    bump(res, 'load-dependent-end')   # a run hit the wall-clock / CPU backstop: not comparable between executions
                elif dr < det_rate and res.get('hash') is not None:
                    res2 = check.run_case(ctx, case)
                    res['det_pair'] = 1
                    if Osim.load_dependent_ends != lde0:
                        bump(res, 'load-dependent-end')
                    elif res2.get('hash') != res.get('hash') or sorted(v['cls'] for v in res2['violations']) != sorted(v['cls'] for v in res['violations']):
                        res['det_mismatch'] = True
                if res['violations']:
                    res['case'] = case
                elif idx < 3 * nworkers and idx % nworkers == wid and idx < nworkers + 3:
                    res['sample'] = check.sample_of(case)
                outq.put(res)
            except Exception:
                outq.put({'idx': idx, 'error': traceback.format_exc()})
            idx += nworkers
    finally:
        ctx.close()
        outq.put({'done': wid})


# ------------------------------------------------------------------------------------------- known findings
def load_known():
    p = os.path.join(VERIF, 'known_findings.json')
    if not os.path.exists(p):
        return {'open': [], 'fixed': []}
    return json.load(open(p))


def match_known(known, pid, viol):
    for k in known.get('open', []):
        if k['property'] != pid:
            continue
        if viol['cls'] not in (k['cls'] if isinstance(k['cls'], list) else [k['cls']]):
            continue
        sig = k.get('sig')
        if sig is None or sig == viol.get('sig'):
            return k
        # partial match: every key of the recorded signature must agree; a recorded list means "any of these values"
        if isinstance(sig, dict) and isinstance(viol.get('sig'), dict) and all(
                (viol['sig'].get(a) == b) or (isinstance(b, list) and not isinstance(viol['sig'].get(a), list) and viol['sig'].get(a) in b) for a, b in sig.items()):
            return k
    return None


# ------------------------------------------------------------------------------------------- shrinking / gate
def same_class(res, cls, sig):
    for v in res['violations']:
        if v['cls'] == cls and (sig is None or v.get('sig') == sig):
            return True
    return False


def shrink(check, ctx, case, cls, sig, max_runs=900, max_s=150):
    t0 = time.time()
    runs = 0
    best = case
    improved = True
    while improved and runs < max_runs and time.time() - t0 < max_s:
        improved = False
        for cand in check.shrink_steps(best):
            if runs >= max_runs or time.time() - t0 > max_s:
                break
            runs += 1
            try:
                r = check.run_case(ctx, cand)
            except Exception:
                continue
            if same_class(r, cls, sig):
                best = cand
                improved = True
                break
    return best, runs


def gate(check, case, cls, sig):
    """A violation is reported only if the minimised case reproduces twice in fresh processes with equal hashes."""
    hashes = []
    for _ in range(2):
        ctx = Ctx()
        try:
            r = check.run_case(ctx, case)
        finally:
            ctx.close()
        if not same_class(r, cls, sig):
            return False, 'did not reproduce in a fresh process'
        hashes.append(r.get('hash'))
    if hashes[0] != hashes[1]:
        return False, 'execution hashes differ between two fresh runs'
    return True, None


# ------------------------------------------------------------------------------------------- main driver
# Number of cases of the quick tier per property (about one minute on 16 idle cores of the development sandbox); thorough = 10x.
QUICK_CASES = {'C01': 3300, 'C02': 3000, 'C03': 3200, 'C04': 2300, 'C05': 1000, 'C06': 2000, 'C07': 2200, 'C08': 1100, 'C09': 1000, 'C10': 2600,
               'C11': 3600, 'C12': 3500, 'C13': 2500, 'C18': 1200, 'C19': 2000, 'C20': 850, 'C21': 3000, 'C22': 3400, 'C23': 550, 'C24': 350,
               'C25': 1100, 'C26': 4900, 'C30': 4600}
THOROUGH_FACTOR = 10


def run_check(check, tier, seed=None, budget_s=None, jobs=None, cases=None):
    t_start = time.time()
    pid = check.pid
    explicit_budget = budget_s is not None or bool(float(os.environ.get('VERIF_BUDGET_S', '0') or 0))
    if seed is None:
        seed = int(os.environ.get('VERIF_SEED', '0') or 0) or (1000003 * int(pid[1:]) + 17)
    if budget_s is None:
        budget_s = float(os.environ.get('VERIF_BUDGET_S', '0') or 0) or (check.quick_budget_s if tier == 'quick' else check.thorough_budget_s)
    if jobs is None:
        jobs = int(os.environ.get('VERIF_JOBS', '0') or 0) or check.jobs
    max_cases = check.max_cases
    if cases is None:
        cases = int(os.environ.get('VERIF_CASES', '0') or 0) or None
    if cases is None and not explicit_budget:
        q = QUICK_CASES.get(pid)
        cases = q if tier == 'quick' else (q * THOROUGH_FACTOR if q else None)
    if cases is not None:
        max_cases = cases if max_cases is None else min(max_cases, cases)
    det_rate = 0.02
    deadline = time.time() + budget_s
    outq = mp.Queue()
    procs = []
    for w in range(jobs):
        p = mp.Process(target=_worker, args=(check, seed, tier, w, jobs, deadline, max_cases, outq, det_rate))
        p.daemon = True
        p.start()
        procs.append(p)
    done = 0
    evaluations = 0
    keys = set()
    counters = {}
    discarded = {}
    samples = []
    errors = []
    det_pairs = 0
    det_mismatch = []
    violations = []  # (res)
    hard_deadline = deadline + 180
    while done < jobs:
        try:
            res = outq.get(timeout=5)
        except Exception:
            if time.time() > hard_deadline:
                errors.append('workers did not finish in time')
                break
            if not any(p.is_alive() for p in procs) and outq.empty():
                break
            continue
        if 'done' in res:
            done += 1
            continue
        if 'error' in res:
            errors.append(res['error'])
            continue
        evaluations += 1
        for k, v in res['counters'].items():
            counters[k] = counters.get(k, 0) + v
        if res.get('discarded'):
            discarded[res['discarded']] = discarded.get(res['discarded'], 0) + 1
        if res.get('extra_keys') is not None:
            keys.update(res['extra_keys'])
        elif res.get('nontrivial') and res.get('key'):
            keys.add(res['key'])
        if 'sample' in res and len(samples) < 4:
            samples.append(res['sample'])
        if res.get('det_pair'):
            det_pairs += 1
        if res.get('det_mismatch'):
            det_mismatch.append(res['idx'])
        if res['violations']:
            violations.append(res)
    for p in procs:
        p.join(timeout=5)
        if p.is_alive():
            p.terminate()

    exit_code = 0
    lines = []
    known = load_known()
    reported = 0
    known_hits = {}
    if errors:
        lines.append('HARNESS-ERROR property=%s %d worker exception(s); first: %s' % (pid, len(errors), errors[0].strip().splitlines()[-1]))
        sys.stderr.write(errors[0])
        exit_code = 2
    if det_mismatch:
        lines.append('HARNESS-ERROR property=%s nondeterministic executions for case indices %s' % (pid, det_mismatch[:5]))
        exit_code = 2

    # group violations by (cls, sig); shrink + gate one representative per group
    groups = {}
    for res in sorted(violations, key=lambda r: r['idx']):
        for v in res['violations']:
            groups.setdefault((v['cls'], json.dumps(v.get('sig'), sort_keys=True)), []).append((res, v))
    os.makedirs(os.path.join(VERIF, 'replays'), exist_ok=True)
    n_new = 0
    for (cls, sigj), items in sorted(groups.items()):
        res, v = items[0]
        k = match_known(known, pid, v)
        if k is not None:
            known_hits[k['id']] = known_hits.get(k['id'], 0) + len(items)
            continue
        if n_new >= 3:
            continue
        ctx = Ctx()
        try:
            small, nruns = shrink(check, ctx, res['case'], cls, v.get('sig'))
            fin = check.run_case(ctx, small)
        finally:
            ctx.close()
        vv = next((x for x in fin['violations'] if x['cls'] == cls), v)
        # a shrunk case may reveal that the violation is a known finding after all
        k = match_known(known, pid, vv)
        if k is not None:
            known_hits[k['id']] = known_hits.get(k['id'], 0) + len(items)
            continue
        ok, why = gate(check, small, cls, v.get('sig'))
        if not ok:
            lines.append('HARNESS-ERROR property=%s violation class %s %s (case idx %d)' % (pid, cls, why, res['idx']))
            exit_code = max(exit_code, 2)
            continue
        n_new += 1
        path = os.path.join(VERIF, 'replays', '%s-%d-%d.json' % (pid, seed, res['idx']))
        json.dump({'property': pid, 'check': check.pid, 'cls': cls, 'sig': vv.get('sig'), 'detail': vv.get('detail'), 'seed': seed, 'idx': res['idx'],
                   'shrink_runs': nruns, 'hash': fin.get('hash'), 'case': small}, open(path, 'w'), indent=1)
        lines.append('VIOLATION property=%s replay=%s' % (pid, path))
        lines.append('  class=%s sig=%s occurrences=%d' % (cls, json.dumps(vv.get('sig')), len(items)))
        exit_code = max(exit_code, 1) if exit_code != 2 else 2
        reported += 1
    for k in known.get('open', []):
        if k['property'] == pid and k['id'] in known_hits:
            lines.append('KNOWN-FINDING: property=%s %s (%d occurrences this run; replay=%s)' % (pid, k['what'], known_hits[k['id']], k.get('replay')))

    if reported > 0:
        exit_code = 1   # a violation that passed the reproduction gate is a finding, whatever else went wrong in the run
    wall = time.time() - t_start
    ev = {
        'property_id': pid, 'tier': tier, 'seed': seed, 'level': 'exploration',
        'coverage': {
            'evaluations': evaluations,
            'distinct_nontrivial': len(keys),
            'rule': check.rule,
            'samples': samples[:3],
            'counters': dict(sorted(counters.items())),
            'discarded': discarded,
            'determinism_pairs_compared': det_pairs,
            'runs_per_hour': int(evaluations / max(wall, 1e-9) * 3600),
            'simulated_ticks': counters.get('sim-ticks', 0),
            'fault_kinds_fired': {k: v for k, v in sorted(counters.items()) if k.startswith('F-')},
            'reach_probes': {k: v for k, v in sorted(counters.items()) if k.startswith('P-')},
            'workers': jobs, 'budget_s': budget_s, 'case_indices': ('0..%d' % (max_cases - 1)) if max_cases else 'time-bounded',
            'technique': check.technique,
            'components': COMPONENTS,
            'known_findings_hit': known_hits,
        },
        'assumptions': check.assumptions + ['z3 5.1 and cvc5 1.4 (used only in agreement)', 'clang 14 sanitizers where a flavour uses them',
                                            "the generator's own SMT-LIB printer"],
        'wall_s': round(wall, 2),
        'violations': reported,
    }
    evdir = os.environ.get('VERIF_EVIDENCE_DIR') or os.path.join(VERIF, 'evidence')   # mutant trials write elsewhere
    os.makedirs(evdir, exist_ok=True)
    json.dump(ev, open(os.path.join(evdir, pid + '.json'), 'w'), indent=1)
    for l in lines:
        print(l)
    print('%s tier=%s seed=%d runs=%d distinct_nontrivial=%d violations=%d known=%d wall=%.1fs exit=%d' % (
        pid, tier, seed, evaluations, len(keys), reported, len(known_hits), wall, exit_code))
    sys.stdout.flush()
    return exit_code


COMPONENTS = {
    'real (from /repo working tree)': 'SMT-LIB lexer/parser, Interpret, MainSolver, Logic/ArithLogic, preprocessing, Tseitin, CDCL core, SatELite, '
                                      'lookahead/ghost engines, all theory solvers, proof, interpolation, unsat cores, model builder, main()',
    'stub (simulator)': 'read(2) on fd 0, getrusage, rand, malloc family (sim flavour), thread scheduling decisions; SAT engine in engine T',
    'external oracle': 'z3 5.1 + cvc5 1.4 Python APIs',
}


def replay(check, path):
    rec = json.load(open(path))
    ctx = Ctx()
    try:
        r = check.run_case(ctx, rec['case'])
    finally:
        ctx.close()
    if same_class(r, rec['cls'], None):
        print('VIOLATION property=%s replay=%s' % (rec['property'], path))
        v = next(x for x in r['violations'] if x['cls'] == rec['cls'])
        print('  class=%s sig=%s' % (v['cls'], json.dumps(v.get('sig'))))
        print('  detail=%s' % json.dumps(v.get('detail'))[:2000])
        return 1
    print('replay of %s: violation class %s NOT reproduced' % (path, rec['cls']))
    return 0


# ------------------------------------------------------------------------------------------- determinism sweep
def _det_worker(check, seed, wid, nworkers, n, outq):
    ctx = Ctx()
    try:
        for idx in range(wid, n, nworkers):
            try:
                case = check.gen_case(seed, idx, 'quick')
                a = check.run_case(ctx, case)
                b = check.run_case(ctx, case)
                same = a.get('hash') == b.get('hash') and sorted(v['cls'] for v in a['violations']) == sorted(v['cls'] for v in b['violations'])
                outq.put({'idx': idx, 'same': same, 'a': a.get('hash'), 'b': b.get('hash'), 'da': a.get('discarded'), 'db': b.get('discarded')})
            except Exception:
                outq.put({'idx': idx, 'error': traceback.format_exc()})
    finally:
        ctx.close()
        outq.put({'done': wid})


def determinism(check, n=400, jobs=16, seed=None):
    """Every case twice (fresh forked child each time), at the given worker count; prints the indices that differ."""
    if seed is None:
        seed = 1000003 * int(check.pid[1:]) + 17
    outq = mp.Queue()
    procs = [mp.Process(target=_det_worker, args=(check, seed, w, jobs, n, outq)) for w in range(jobs)]
    for p in procs:
        p.daemon = True
        p.start()
    done = 0
    bad, errs, total = [], [], 0
    while done < jobs:
        r = outq.get()
        if 'done' in r:
            done += 1
        elif 'error' in r:
            errs.append(r)
        else:
            total += 1
            if not r['same']:
                bad.append(r)
    print('%s determinism: %d cases x 2 at %d workers, %d mismatches, %d errors' % (check.pid, total, jobs, len(bad), len(errs)))
    for r in bad[:10]:
        print('  ', r)
    for r in errs[:3]:
        print(r['error'])
    return 0 if not bad and not errs else 2
