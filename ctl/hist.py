"""History generator (push/pop/assert/check/query sequences) and R-stack, the reference model of the
assertion stack (SMT-LIB 2.6 section 4.1.4) used by the oracles."""
from fractions import Fraction

from . import gen
from .gen import T, pr


# ------------------------------------------------------------------------------------------- R-stack
class Level:
    def __init__(self, frame_id):
        self.frame_id = frame_id
        self.asserts = []   # dicts: ref, name (top-level name or None), idx (global assertion index)
        self.names = {}     # name -> dict(ref, is_bool, toplevel)
        self.defs = []      # (name, text)


class RStack:
    """Reference model of the assertion stack. Commands flagged as faults (expected to be rejected) are ignored."""

    def __init__(self, global_decls=False):
        self.levels = [Level(0)]
        self.pushes = 0
        self.global_decls = global_decls
        self.global_names = {}
        self.global_defs = []
        self.n_asserts = 0

    def depth(self):
        return len(self.levels) - 1

    def apply(self, c):
        k = c['k']
        if c.get('fault'):
            return
        if k == 'push':
            for _ in range(c['n']):
                self.pushes += 1
                self.levels.append(Level(self.pushes))
        elif k == 'pop':
            if c['n'] <= self.depth():
                for _ in range(c['n']):
                    self.levels.pop()
        elif k == 'assert':
            top = None
            for (name, ref, is_bool, toplevel) in c.get('names', []):
                entry = {'ref': ref, 'is_bool': is_bool, 'toplevel': toplevel}
                if self.global_decls:
                    self.global_names[name] = entry
                else:
                    self.levels[-1].names[name] = entry
                if toplevel:
                    top = name
            self.levels[-1].asserts.append({'ref': c['ref'], 'name': top, 'idx': self.n_asserts})
            self.n_asserts += 1
        elif k == 'define-fun':
            if self.global_decls:
                self.global_defs.append((c['name'], c['text']))
            else:
                self.levels[-1].defs.append((c['name'], c['text']))

    # -------- views
    def live_asserts(self):
        return [a for lv in self.levels for a in lv.asserts]

    def live_names(self):
        out = dict(self.global_names)
        for lv in self.levels:
            out.update(lv.names)
        return out

    def live_defs(self):
        return list(self.global_defs) + [d for lv in self.levels for d in lv.defs]

    def live_frame_ids(self):
        return [lv.frame_id for lv in self.levels]

    def snapshot(self):
        return {'asserts': [dict(a) for a in self.live_asserts()], 'names': {k: dict(v) for k, v in self.live_names().items()},
                'defs': self.live_defs(), 'frames': self.live_frame_ids(), 'depth': self.depth()}


def snapshots(commands, global_decls=False):
    """R-stack snapshot *before* each command index (so for a check-sat at i: the stack it sees)."""
    rs = RStack(global_decls)
    out = []
    for c in commands:
        out.append(rs.snapshot() if c['k'] in ('check-sat', 'get-model', 'get-value', 'get-assignment', 'get-unsat-core', 'get-interpolants', 'get-proof') else None)
        rs.apply(c)
    return out


# ------------------------------------------------------------------------------------------- generator
DEFAULTS = dict(ncmds=(8, 26), p_push=0.12, p_pop=0.10, p_check=0.22, named=0.0, nested_named=0.0, defines=0.0,
                queries=(), q_prob=0.7, unsat_bias=0.3, all_named=False, max_live=14, max_depth=3, big=0.15, max_push=4,
                reassert=0.12, value_terms=True, final_check=True, clausal=0.35, bool_args=True, allow_let=True, reenter=0.25, horn=0.3, hard3=0.25,
                uf_heavy=0.4, dl_dense=0.5, la_dense=0.3, ax_dense=0.5, uf_dense=0.4, term_reuse=True, subst=0.04, nconsts=None, xnames=0.125)


class HistGen:
    def __init__(self, rng, prof, **kw):
        self.rng = rng
        self.prof = prof
        self.o = dict(DEFAULTS)
        self.o.update(kw)
        # "horn" mode: implication chains (definite clauses) over many equalities / bounds between a larger set of constants,
        # which makes unit propagation interleave with theory propagation (transitivity, bound implication)
        self.horn = rng.random() < self.o['horn'] * (1.0 if self.o['clausal'] > 0 else 0.0)
        # "dl-dense" mode (difference logics): 4-6 numeric variables and a pool of 12-24 small-constant difference atoms, so that
        # the constraint graph has several paths and cycles between the same vertices (distance updates, explanations of
        # deduced edges, negative cycles closed by the last edge)
        self.dl_dense = gen.PROFILES[prof]['dl'] and self.o['clausal'] > 0 and rng.random() < self.o['dl_dense']
        # "la-dense" mode (linear arithmetic): 3-4 numeric variables, pool of 10-20 bounds on variables and on short linear
        # combinations with small coefficients
        # "ax-dense" mode (arrays): two or three arrays, few indices and elements, atoms from the vocabulary the array solver
        # reasons about (array = store, index (dis)equality, select (dis)equality)
        self.ax_dense = gen.PROFILES[prof]['arrays'] and self.o['clausal'] > 0 and rng.random() < self.o['ax_dense']
        pp0 = gen.PROFILES[prof]
        self.uf_dense = False
        self.la_dense = bool(pp0['nums']) and not pp0['dl'] and self.o['clausal'] > 0 and rng.random() < self.o['la_dense']
        self.sig = gen.make_signature(rng, prof, self.o['bool_args'], xnames=self.o['xnames'], nconsts=self.o['nconsts'] or ((5, 8) if self.horn else ((4, 6) if self.dl_dense else ((3, 4) if self.la_dense else (2, 4)))))
        # "uf-dense" mode: decided after the signature is known (needs a function U x .. x U -> U)
        if pp0['uf'] and not pp0['arrays'] and self.o['clausal'] > 0 and any(f[2] in self.sig.sorts and all(a == f[2] for a in f[1]) for f in self.sig.funs):
            self.uf_dense = rng.random() < self.o['uf_dense'] and not (self.la_dense or self.dl_dense)
        self.tg = gen.TermGen(rng, prof, self.sig, big_consts=self.o['big'], max_depth=self.o['max_depth'])
        self.tg.allow_let = self.o['allow_let']
        self.tg.reuse = rng.choice([0.0, 0.1, 0.25]) if self.o['term_reuse'] else 0.0
        pp = gen.PROFILES[prof]
        if pp['uf'] and pp['nums'] and not pp['dl'] and any(f[2] in pp['nums'] for f in self.sig.funs):
            self.tg.uf_heavy = rng.random() < self.o['uf_heavy']
        self.cmds = []
        self.levels = [[]]        # live assertion T's per level
        self.popped = []          # assertions (T) that were popped, candidates for re-assertion
        self.name_id = 0
        self.live_names = [[]]    # per level: top-level names
        self.all_names = [[]]     # per level: every name (for uniqueness)
        self.macro_levels = [[]]
        self.pending = []
        self.def_id = 0
        self.pool = None
        if self.horn or self.dl_dense or self.la_dense or self.ax_dense or self.uf_dense or rng.random() < self.o['clausal']:
            # "hard" mode: random 2-3 literal clauses over a fixed pool of atoms, so that the answer needs search
            # "hard3": 3-literal clauses only, at a clause / atom ratio around the random 3-SAT threshold, so that the answer
            # needs tens of conflicts instead of being decided by propagation
            self.hard3 = rng.random() < self.o['hard3']
            n = rng.randint(5, 11) if not (self.horn or self.hard3) else rng.randint(10, 22)
            if self.dl_dense:
                n = rng.randint(12, 24)
                self.tg.big = 0.0
            if self.la_dense:
                n = rng.randint(10, 20)
            self.pool = []
            seen_atoms = set()
            for _ in range(n):
                for _try in range(6):
                    a = self.tg.atom(rng.randint(0, 2) if not self.horn else 0)
                    if self.dl_dense and rng.random() < 0.9:
                        a = self.tg.dl_atom(rng.choice(gen.PROFILES[prof]['nums']), 0)
                    if self.la_dense and rng.random() < 0.85:
                        a = self.tg.la_atom(rng.choice(gen.PROFILES[prof]['nums']))
                    if self.ax_dense and rng.random() < 0.85:
                        a = self.tg.ax_atom()
                    if self.uf_dense and rng.random() < 0.85:
                        a = self.tg.uf_atom()
                    txt = pr(a, False)
                    # no syntactically trivial atoms ((= x x), (distinct x x), (< x x)) and no duplicates in the pool
                    trivial = a.op == 'app' and len(a.args) >= 2 and len({pr(x, False) for x in a.args}) < len(a.args)
                    if not trivial and txt not in seen_atoms:
                        break
                seen_atoms.add(txt)
                self.pool.append(a)
            if self.dl_dense and rng.random() < 0.5:
                self.pool = self.dl_cycle_pool(rng) + self.pool[:max(2, n // 3)]
            ratio = rng.choice([2.5, 3.5, 4.3]) if not self.hard3 else rng.choice([3.8, 4.2, 4.6])
            self.o['max_live'] = max(self.o['max_live'], int(n * ratio))
            self.o['ncmds'] = (self.o['ncmds'][0] + int(n * ratio * 0.8), self.o['ncmds'][1] + int(n * ratio * 1.3))
            if self.hard3:
                self.o['p_check'] = min(self.o['p_check'], 0.06)

    def dl_cycle_pool(self, rng):
        """Difference atoms that form a ring v0 -> v1 -> .. -> vk -> v0 whose weights sum to -1, 0 or 1, plus chords vi -> vj
        that are a little weaker or a little stronger than the path they shortcut: whatever subset and order the search asserts,
        the solver has to keep shortest distances right when a shorter route to an already visited vertex appears, explain a
        deduced edge by the path that really implies it, and notice the edge that closes a negative cycle."""
        sort = rng.choice(gen.PROFILES[self.prof]['nums'])
        vs = list(self.sig.consts[sort])
        rng.shuffle(vs)
        vs = vs[:max(3, min(len(vs), rng.randint(4, 6)))]
        k = len(vs)
        w = [rng.randint(-2, 3) for _ in range(k)]
        w[-1] += rng.choice([-1, -1, 0, 1]) - sum(w)

        def edge(a, b, c):          # a -> b with weight c:  b - a <= c
            return T('app', 'Bool', head='<=', args=[T('app', sort, head='-', args=[T('var', sort, val=b), T('var', sort, val=a)]), T('num', sort, val=Fraction(c))])
        atoms = [edge(vs[i], vs[(i + 1) % k], w[i]) for i in range(k)]
        for _ in range(rng.randint(2, 5)):
            i = rng.randrange(k)
            ln = rng.randint(2, k - 1)
            path = sum(w[(i + d) % k] for d in range(ln))
            atoms.append(edge(vs[i], vs[(i + ln) % k], path + rng.choice([-1, 0, 1, 2, 5])))
        rng.shuffle(atoms)
        return atoms

    def clause_from_pool(self):
        r = self.rng
        k = r.choice([2, 2, 3, 3, 3, 1]) if not getattr(self, 'hard3', False) else 3
        lits = []
        chosen = r.sample(self.pool, min(k, len(self.pool)))
        for j, a in enumerate(chosen):
            if self.horn and r.random() < 0.85:
                neg = j > 0 if r.random() < 0.8 else True   # definite clause (one positive head) or goal clause (all negative)
            else:
                neg = r.random() < 0.5
            lits.append(gen.negate(a) if neg else a)
        return lits[0] if len(lits) == 1 else T('app', 'Bool', head='or', args=lits)

    # ---- helpers
    def fresh_name(self, prefix='n'):
        self.name_id += 1
        return '%s%d' % (prefix, self.name_id)

    def depth(self):
        return len(self.levels) - 1

    def n_live(self):
        return sum(len(l) for l in self.levels)

    def add_nested_names(self, t, budget):
        """Wrap some Boolean/non-Boolean subterms (outside let bodies) with :named."""
        if budget[0] <= 0 or t.op != 'app':
            return t
        new_args = []
        for a in t.args:
            a = self.add_nested_names(a, budget)
            if budget[0] > 0 and a.op in ('app', 'var') and self.rng.random() < self.o['nested_named'] and not a.sort.startswith('(Array'):
                nm = self.fresh_name('s')
                self.all_names[-1].append(nm)
                a = T('named', a.sort, args=[a], name=nm)
                budget[0] -= 1
            new_args.append(a)
        return T('app', t.sort, head=t.head, args=new_args)

    def emit_assert(self, t):
        r = self.rng
        # a formula that is already on the stack is usually not asserted a second time (random clauses over a small pool repeat
        # often; co-live duplicates are the known term-identity finding and would file everything else in the run under it)
        txt = pr(gen.strip_names(t), False)
        if any(pr(x, False) == txt for lv in self.levels for x in lv) and r.random() < 0.9:
            return
        if self.o['nested_named'] > 0:
            t = self.add_nested_names(t, [2])
        named = self.o['all_named'] or r.random() < self.o['named']
        if named:
            nm = self.fresh_name('a')
            self.live_names[-1].append(nm)
            self.all_names[-1].append(nm)
            t = T('named', 'Bool', args=[t], name=nm)
        names = []
        gen.collect_named(t, names, True)
        syms = set()
        gen.symbols_of(t, syms)
        self.cmds.append({'k': 'assert', 'text': '(assert %s)' % pr(t, True), 'ref': pr(t, False), 'names': names, 'syms': sorted(syms)})
        base = gen.strip_names(t)
        self.levels[-1].append(base)

    def unsat_gadget(self):
        """A few assertions that are jointly unsatisfiable but individually harmless."""
        r, tg, p = self.rng, self.tg, gen.PROFILES[self.prof]
        kinds = ['neg-prev']
        if p['nums']:
            kinds += ['cycle', 'cycle']
        if self.sig.sorts and self.sig.funs:
            kinds += ['cong', 'cong']
        if self.sig.sorts:
            kinds += ['trans']
        kinds += ['sat4', 'chain']
        if p['nums'] and not p['dl'] and max(len(self.sig.consts[x]) for x in p['nums']) >= 5:
            kinds += ['farkas', 'farkas']
        if p['nums'] and not p['dl'] and any(f[2] != 'Bool' and len(f[1]) == 1 and f[1][0] in p['nums'] for f in self.sig.funs):
            kinds += ['iface', 'iface']
        k = r.choice(kinds)
        if k == 'farkas':
            # a linear system that is infeasible by one Farkas combination with non-unit multipliers: rows
            # sum_j a_ij * u_j + s_i >= 0 over two or three "local" variables u_j and one own variable s_i each, multipliers
            # lambda_i > 0 chosen so that the u_j cancel, and the row sum_i lambda_i * s_i <= -1. Every row is its own
            # assertion, so interpolation splits fall between rows: the locals of one side must be eliminated by a
            # (decomposed) Farkas combination, and the conflict certificate has to carry exactly the lambdas.
            sort = max(p['nums'], key=lambda x: len(self.sig.consts[x]))
            vs = list(self.sig.consts[sort])
            r.shuffle(vs)
            nloc = 2 if len(vs) < 7 else r.choice([2, 3])
            m = min(len(vs) - nloc, r.randint(3, 5))
            loc, sh = vs[:nloc], vs[nloc:nloc + m]
            lam = [r.randint(1, 3) for _ in range(m - 1)] + [1]
            a = [[r.randint(-3, 3) for _ in range(nloc)] for _ in range(m - 1)]
            a.append([-sum(lam[i] * a[i][j] for i in range(m - 1)) for j in range(nloc)])

            def lin(coefs, names):
                ts = []
                for c, n in zip(coefs, names):
                    if c == 0:
                        continue
                    v = T('var', sort, val=n)
                    ts.append(v if c == 1 else T('app', sort, head='*', args=[T('num', sort, val=Fraction(c)), v]))
                return ts
            out = []
            for i in range(m):
                ts = lin(a[i], loc) + [T('var', sort, val=sh[i])]
                lhs = ts[0] if len(ts) == 1 else T('app', sort, head='+', args=ts)
                out.append(T('app', 'Bool', head='>=', args=[lhs, T('num', sort, val=Fraction(0))]))
            ts = lin(lam, sh)
            lhs = ts[0] if len(ts) == 1 else T('app', sort, head='+', args=ts)
            out.append(T('app', 'Bool', head='<=', args=[lhs, T('num', sort, val=Fraction(-1))]))
            if r.random() < 0.5:
                r.shuffle(out)
            return out
        if k == 'chain':
            # an implied unit (a follows from (a or b), (a or not b) only by a conflict), a clause that passes it on (not a or c)
            # and its refutation (not c), spread over assertion levels: the refutation runs through level guards and through a
            # literal that became fixed at level 0 after the clauses using it were added
            if self.pool and len(self.pool) >= 3:
                a, b, c = r.sample(self.pool, 3)
            else:
                a, b, c = tg.atom(1), tg.atom(1), tg.atom(1)
            if len({pr(a, False), pr(b, False), pr(c, False)}) < 3:
                return [tg.boolean(2)]
            if r.random() < 0.5:
                a = gen.negate(a)
            if r.random() < 0.5:
                c = gen.negate(c)
            out = [T('app', 'Bool', head='or', args=[a, b]), T('app', 'Bool', head='or', args=[a, gen.negate(b)])]
            r.shuffle(out)
            if r.random() < 0.6:
                out.append('push')
            out.append(T('app', 'Bool', head='or', args=[gen.negate(a), c]))
            if r.random() < 0.6:
                out.append('push')
            out.append(gen.negate(c))
            return out
        if k == 'sat4':
            # the four binary clauses over two atoms: unsatisfiable, but only a decision followed by a conflict shows it
            # (no unit propagation at level 0), so the refutation comes from conflict analysis, not from preprocessing
            if self.pool and len(self.pool) >= 2:
                a, b = r.sample(self.pool, 2)
            else:
                a, b = tg.atom(1), tg.atom(1)
            if pr(a, False) == pr(b, False):
                return [tg.boolean(2)]
            na, nb = gen.negate(a), gen.negate(b)
            cl = [T('app', 'Bool', head='or', args=[x, y]) for (x, y) in ((a, b), (na, b), (a, nb), (na, nb))]
            r.shuffle(cl)
            return cl
        if k == 'iface':
            # theory combination: x = y holds only arithmetically (x <= y and y <= x, possibly shifted by a third term), the
            # contradiction needs the interface equality between the two arguments of an uninterpreted function
            f = r.choice([f for f in self.sig.funs if f[2] != 'Bool' and len(f[1]) == 1 and f[1][0] in p['nums']])
            s0 = f[1][0]
            vs = self.sig.consts[s0]
            if len(vs) < 2:
                return [tg.boolean(2)]
            xn, yn = r.sample(vs, 2)
            x, y = T('var', s0, val=xn), T('var', s0, val=yn)
            if len(vs) >= 3 and r.random() < 0.5:
                c = T('var', s0, val=r.choice([v for v in vs if v not in (xn, yn)]))
                zero = T('num', s0, val=Fraction(0))
                le1 = T('app', 'Bool', head='<=', args=[T('app', s0, head='+', args=[x, c]), zero])
                le2 = T('app', 'Bool', head='<=', args=[zero, T('app', s0, head='+', args=[y, c])])
                le3 = T('app', 'Bool', head='<=', args=[y, x])
                pre = [le1, le2, le3]
            else:
                pre = [T('app', 'Bool', head='<=', args=[x, y]), T('app', 'Bool', head='>=', args=[x, y])]
            fx = T('app', f[2], head=f[0], args=[x])
            fy = T('app', f[2], head=f[0], args=[y])
            out = pre + [T('app', 'Bool', head='distinct', args=[fx, fy])]
            r.shuffle(out)
            return out
        if k == 'neg-prev':
            live = [t for l in self.levels for t in l]
            if not live:
                return [tg.boolean(2)]
            pick = r.sample(live, min(len(live), r.randint(1, 2)))
            return [gen.negate(gen.conj(pick))]
        if k == 'cycle':
            s = r.choice(p['nums'])
            vs = self.sig.consts[s]
            n = min(len(vs), r.choice([2, 3, 3, 4, 5, 6]))
            xs = [T('var', s, val=v) for v in r.sample(vs, n)]
            out = []
            for i in range(n):
                a, b = xs[i], xs[(i + 1) % n]
                if p['dl'] or r.random() < 0.5:
                    # a - b <= c_i, with the c_i summing to a negative number
                    c = Fraction(-1 if i == 0 else 0) if r.random() < 0.6 else Fraction(r.randint(-3, 0) - (1 if i == 0 else 0))
                    if i != 0 and r.random() < 0.3:
                        c = Fraction(0)
                    out.append(T('app', 'Bool', head='<=', args=[T('app', s, head='-', args=[a, b]), T('num', s, val=c)]))
                else:
                    out.append(T('app', 'Bool', head='<' if i == 0 else r.choice(['<', '<=']), args=[a, b]))
            return out
        if k == 'cong':
            fs = [f for f in self.sig.funs if f[2] != 'Bool' and len(f[1]) >= 1 and all(a in self.sig.consts and self.sig.consts[a] for a in f[1])]
            if not fs:
                return [tg.boolean(2)]
            f = r.choice(fs)
            s0 = f[1][0]
            if s0 == 'Bool' or len(self.sig.consts[s0]) < 2:
                return [tg.boolean(2)]
            a, b = [T('var', s0, val=v) for v in r.sample(self.sig.consts[s0], 2)]
            rest = [tg.term(s, 1) for s in f[1][1:]]
            fa = T('app', f[2], head=f[0], args=[a] + rest)
            fb = T('app', f[2], head=f[0], args=[b] + rest)
            return [T('app', 'Bool', head='=', args=[a, b]), T('app', 'Bool', head='distinct', args=[fa, fb])]
        if k == 'trans':
            s = r.choice(self.sig.sorts)
            vs = self.sig.consts[s]
            if len(vs) < 3:
                return [tg.boolean(2)]
            a, b, c = [T('var', s, val=v) for v in r.sample(vs, 3)]
            return [T('app', 'Bool', head='=', args=[a, b]), T('app', 'Bool', head='=', args=[b, c]), T('app', 'Bool', head='distinct', args=[a, c])]
        return [tg.boolean(2)]

    def emit_define(self):
        r, tg = self.rng, self.tg
        self.def_id += 1
        name = 'm%d' % self.def_id
        sorts = ['Bool'] + gen.PROFILES[self.prof]['nums'] + self.sig.sorts
        if gen.PROFILES[self.prof]['dl']:
            sorts = ['Bool'] + self.sig.sorts
        ret = r.choice(sorts)
        nparams = r.randint(0, 2)
        params = [('q%d_%d' % (self.def_id, i), r.choice(sorts)) for i in range(nparams)]
        for pn, ps in params:
            self.sig.consts.setdefault(ps, [])
            self.sig.consts[ps] = self.sig.consts[ps] + [pn]
        tg.no_memory = True      # parameters are not in scope outside the body
        body = tg.term(ret, 2)
        tg.no_memory = False
        for pn, ps in params:
            self.sig.consts[ps] = [x for x in self.sig.consts[ps] if x != pn]
        text = '(define-fun %s (%s) %s %s)' % (name, ' '.join('(%s %s)' % p for p in params), ret, pr(body, False))
        self.cmds.append({'k': 'define-fun', 'name': name, 'text': text, 'params': [p[1] for p in params], 'ret': ret})
        m = (name, [p[1] for p in params], ret)
        tg.macros.append(m)
        self.macro_levels[-1].append(m)

    def emit_queries(self):
        r = self.rng
        for q in self.o['queries']:
            prob = self.o['q_prob']
            if isinstance(q, (tuple, list)):
                q, prob = q
            if r.random() > prob:
                continue
            if q == 'get-value':
                terms = []
                for _ in range(r.randint(1, 3)):
                    sorts = [s for s in self.sig.consts if self.sig.consts[s] and not s.startswith('(Array')]
                    s = r.choice(sorts)
                    t = self.tg.term(s, r.randint(0, 2))
                    terms.append(pr(t, False))
                self.cmds.append({'k': 'get-value', 'terms': terms, 'text': '(get-value (%s))' % ' '.join(terms)})
            elif q == 'get-interpolants':
                names = [n for l in self.live_names for n in l]
                if len(names) < 2:
                    continue
                k = 2 if r.random() < self.o.get('itp_binary', 0.6) else min(len(names), r.randint(3, 4))
                order = names[:]
                if r.random() < 0.7:
                    r.shuffle(order)
                cuts = sorted(r.sample(range(1, len(order)), k - 1))
                groups = [order[a:b] for a, b in zip([0] + cuts, cuts + [len(order)])]
                gtexts = [g[0] if (len(g) == 1) else '(and %s)' % ' '.join(g) for g in groups]
                self.cmds.append({'k': 'get-interpolants', 'groups': groups, 'text': '(get-interpolants %s)' % ' '.join(gtexts)})
            else:
                self.cmds.append({'k': q, 'text': '(%s)' % q})

    def do_push(self):
        n = 1 if self.rng.random() < 0.85 else 2
        n = min(n, self.o['max_push'] - self.depth())
        if n <= 0:
            return
        self.cmds.append({'k': 'push', 'n': n, 'text': '(push %d)' % n})
        for _ in range(n):
            self.levels.append([])
            self.live_names.append([])
            self.all_names.append([])
            self.macro_levels.append([])

    def do_pop(self):
        if self.depth() == 0:
            return
        n = 1 if self.rng.random() < 0.8 else min(2, self.depth())
        self.cmds.append({'k': 'pop', 'n': n, 'text': '(pop %d)' % n})
        last_level = []
        for _ in range(n):
            last_level = self.levels.pop()
            self.popped += last_level
            self.live_names.pop()
            self.all_names.pop()
            for m in self.macro_levels.pop():
                self.tg.macros.remove(m)
        self.pending = []
        # re-entry: push again and assert (part of) what was just popped, then check - "levels that are popped and re-entered"
        if last_level and self.rng.random() < self.o['reenter'] and self.depth() < self.o['max_push']:
            again = [t for t in last_level if not self.uses_dead_macro(t)]
            if self.rng.random() < 0.4 and len(again) > 1:
                again = self.rng.sample(again, self.rng.randint(1, len(again)))
            if again:
                self.reentry = ['push'] + again + ['check']

    def bool_subterms(self, t, out=None, depth=0):
        """Boolean subterms of t outside let bodies (binder names are not in scope elsewhere)."""
        if out is None:
            out = []
        if t.op == 'let' or depth > 6:
            return out
        if t.sort == 'Bool' and t.op in ('app', 'var'):
            out.append(t)
        if t.op == 'named':
            return self.bool_subterms(t.args[0], out, depth + 1)
        for a in t.args:
            self.bool_subterms(a, out, depth + 1)
        return out

    def uses_dead_macro(self, t):
        live = {m[0] for m in self.tg.macros}
        syms = set()
        gen.symbols_of(t, syms)
        return any(s.startswith('m') and s[1:].isdigit() and s not in live for s in syms)

    def run(self):
        r, o = self.rng, self.o
        n = r.randint(*o['ncmds'])
        incremental = o['max_push'] > 0
        checks = 0
        while len(self.cmds) < n:
            c = r.random()
            if getattr(self, 'reentry', None):
                step = self.reentry.pop(0)
                if step == 'push':
                    self.cmds.append({'k': 'push', 'n': 1, 'text': '(push 1)'})
                    self.levels.append([])
                    self.live_names.append([])
                    self.all_names.append([])
                    self.macro_levels.append([])
                elif step == 'check':
                    self.cmds.append({'k': 'check-sat', 'text': '(check-sat)'})
                    checks += 1
                    self.emit_queries()
                else:
                    self.emit_assert(step)
                continue
            if self.pending:
                step = self.pending.pop(0)
                if step == 'push':
                    if incremental:
                        self.do_push()
                else:
                    self.emit_assert(step)
                continue
            if incremental and c < o['p_push']:
                self.do_push()
            elif incremental and c < o['p_push'] + o['p_pop']:
                self.do_pop()
            elif c < o['p_push'] + o['p_pop'] + o['p_check'] and self.n_live() > 0:
                self.cmds.append({'k': 'check-sat', 'text': '(check-sat)'})
                checks += 1
                self.emit_queries()
                if not incremental:
                    break
            elif r.random() < o['defines']:
                self.emit_define()
            elif gen.PROFILES[self.prof]['nums'] and not gen.PROFILES[self.prof]['dl'] and r.random() < o['subst'] and self.n_live() < o['max_live']:
                # top-level equalities that the arithmetic preprocessing turns into substitutions: a variable fixed to a constant
                # (often a big one) next to a linear equation that contains it
                sort = r.choice(gen.PROFILES[self.prof]['nums'])
                vs = self.sig.consts[sort]
                if len(vs) >= 2:
                    xn, yn = r.sample(vs, 2)
                    x, y = T('var', sort, val=xn), T('var', sort, val=yn)
                    c = self.tg.const(sort)
                    k = T('num', sort, val=Fraction(r.choice([1, 2, 3, -1, -2])))
                    rhs = self.tg.numeric(sort, 1)
                    self.emit_assert(T('app', 'Bool', head='=', args=[x, c]))
                    self.emit_assert(T('app', 'Bool', head='=', args=[T('app', sort, head='+', args=[T('app', sort, head='*', args=[k, x]), y]), rhs]))
            elif self.n_live() < o['max_live']:
                u = r.random()
                if u < o['unsat_bias']:
                    # an unsatisfiable group at the base level would make every later check-sat of the history trivial (the
                    # solver remembers that level 0 is unsat): open a level first, so that a pop brings the stack back to life
                    if incremental and self.depth() == 0 and r.random() < 0.85:
                        self.do_push()
                    g = self.unsat_gadget()
                    self.emit_assert(g[0])
                    self.pending = g[1:]
                elif u < o['unsat_bias'] + o['reassert'] and self.popped:
                    # something that was on a popped level comes back: the formula itself, its negation, a Boolean subterm of it, or
                    # one of these combined with fresh material (per-frame caches of the CNF converter, of the div/mod, ITE and
                    # substitution passes and of the partition bookkeeping meet a term for the second time)
                    t = r.choice(self.popped)
                    if not self.uses_dead_macro(t):
                        v = r.random()
                        if v < 0.45:
                            pass
                        elif v < 0.6:
                            t = gen.negate(t)
                        else:
                            subs = [x for x in self.bool_subterms(t) if x is not t]
                            if subs and r.random() < 0.6:
                                t = r.choice(subs)
                            if r.random() < 0.5:
                                t = gen.negate(t)
                            if r.random() < 0.7:
                                other = self.clause_from_pool() if (self.pool and r.random() < 0.6) else self.tg.boolean(r.randint(0, 2))
                                t = T('app', 'Bool', head=r.choice(['or', 'and', 'or']), args=[t, other] if r.random() < 0.5 else [other, t])
                        self.emit_assert(t)
                elif self.pool and r.random() < 0.85:
                    self.emit_assert(self.clause_from_pool())
                else:
                    self.emit_assert(self.tg.boolean(r.randint(1, o['max_depth'])))
            elif incremental:
                self.do_pop() if self.depth() else self.cmds.append({'k': 'check-sat', 'text': '(check-sat)'})
            else:
                break
        while self.pending:
            step = self.pending.pop(0)
            if step != 'push':
                self.emit_assert(step)
        if o['final_check'] and (not self.cmds or self.cmds[-1]['k'] != 'check-sat' or checks == 0):
            if self.cmds and self.cmds[-1]['k'] not in ('check-sat',) and self.n_live() > 0:
                self.cmds.append({'k': 'check-sat', 'text': '(check-sat)'})
                self.emit_queries()
        return self.cmds


def gen_history(rng, prof, **kw):
    hg = HistGen(rng, prof, **kw)
    cmds = hg.run()
    return {'profile': prof, 'logic': gen.PROFILES[prof]['logic'], 'decls': hg.sig.decl_cmds, 'commands': cmds}


def script_lines(hist, options, logic=None):
    """Full command text list: set-option prefix, set-logic, declarations, history."""
    out = ['(set-option %s %s)' % (k, v) for k, v in options]
    out.append('(set-logic %s)' % (logic or hist['logic']))
    out += [d['text'] for d in hist['decls']]
    out += [c['text'] for c in hist['commands']]
    return out


def prefix_len(hist, options):
    return len(options) + 1 + len(hist['decls'])
