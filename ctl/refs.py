"""R-truth: satisfiability of a conjunction according to two independent reference solvers (z3 and cvc5 Python
APIs). An answer is used only if both agree and are definitive; otherwise the case is *unresolved* and is never
turned into a violation. Resource limits are the solvers' own deterministic counters, not wall clock."""
import hashlib

import z3
import cvc5


class RefError(Exception):
    """A reference solver could not parse / process the query (reported as oracle error, never as a violation)."""


class Refs:
    def __init__(self, z3_rlimit=3000000, cvc5_rlimit=200000):
        self.z3_rlimit = z3_rlimit
        self.cvc5_rlimit = cvc5_rlimit
        self.memo = {}
        self.stats = {'queries': 0, 'memo_hits': 0, 'unresolved': 0, 'disagree': 0, 'errors': 0, 'sat': 0, 'unsat': 0}
        self.last_raw = None
        self._zctx, self._zn = None, 0

    # ---------------------------------------------------------------- individual solvers
    def _z3(self, text):
        # Creating a z3 context costs ~40 ms, a small query ~1 ms: the context is shared by up to 400 queries. A definitive
        # answer is a semantic fact whichever context produced it; a non-definitive one is re-asked in a fresh context, so
        # that 'unresolved' stays a function of the query text alone.
        if self._zctx is None or self._zn >= 400:
            self._zctx, self._zn = z3.Context(), 0
        self._zn += 1
        r = self._z3_in(text, self._zctx)
        if r not in ('sat', 'unsat'):
            r = self._z3_in(text, z3.Context())
        return r

    def _z3_in(self, text, ctx):
        s = z3.Solver(ctx=ctx)
        s.set('rlimit', self.z3_rlimit)
        try:
            s.from_string(text)
        except z3.Z3Exception as e:
            raise RefError('z3 parse: %s' % str(e)[:300])
        try:
            r = s.check()
        except z3.Z3Exception as e:
            raise RefError('z3 check: %s' % str(e)[:300])
        return str(r)

    def _cvc5(self, text):
        slv = cvc5.Solver()
        slv.setOption('rlimit-per', str(self.cvc5_rlimit))
        parser = cvc5.InputParser(slv)
        parser.setStringInput(cvc5.InputLanguage.SMT_LIB_2_6, text, 'q')
        sm = parser.getSymbolManager()
        res = None
        try:
            while True:
                cmd = parser.nextCommand()
                if cmd.isNull():
                    break
                out = cmd.invoke(slv, sm)
                if cmd.getCommandName() == 'check-sat':
                    res = out.strip()
        except Exception as e:  # cvc5 raises CVC5ApiException / parser exceptions
            raise RefError('cvc5: %s' % str(e)[:300])
        if res is None or res.startswith('(error'):
            raise RefError('cvc5: no check-sat result: %r' % res)
        return res

    # ---------------------------------------------------------------- R-truth
    def truth_text(self, text):
        """'sat' / 'unsat' when both references agree, None when unresolved. Raises RefError on parse problems."""
        key = hashlib.sha1(text.encode()).hexdigest()
        if key in self.memo:
            self.stats['memo_hits'] += 1
            self.last_raw = self.memo[key][1]
            r = self.memo[key][0]
            if isinstance(r, RefError):
                raise r
            return r
        self.stats['queries'] += 1
        try:
            a = self._z3(text)
            b = self._cvc5(text)
        except RefError as e:
            self.stats['errors'] += 1
            self.memo[key] = (e, None)
            raise
        self.last_raw = (a, b)
        if a == b and a in ('sat', 'unsat'):
            self.stats[a] += 1
            r = a
        else:
            if a in ('sat', 'unsat') and b in ('sat', 'unsat'):
                self.stats['disagree'] += 1
            self.stats['unresolved'] += 1
            r = None
        self.memo[key] = (r, self.last_raw)
        return r

    def truth(self, prelude, formulas):
        return self.truth_text(query_text(prelude, formulas))


def query_text(prelude, formulas):
    return '(set-logic ALL)\n' + prelude + '\n' + '\n'.join('(assert %s)' % f for f in formulas) + '\n(check-sat)\n'


def prelude_from_decls(decls, defs=()):
    """decls: command dicts of declare-sort / declare-fun; defs: (name, define-fun text)."""
    lines = [d['text'] for d in decls]
    lines += [t for _, t in defs]
    return '\n'.join(lines)


BUILTIN_SORT_TOKENS = {'Bool', 'Int', 'Real', 'Array', '(', ')'}


def sorts_in(sort_text):
    toks = sort_text.replace('(', ' ( ').replace(')', ' ) ').split()
    return [t for t in toks if t not in BUILTIN_SORT_TOKENS]


def quote(name):
    import re
    if re.fullmatch(r'[A-Za-z_][A-Za-z0-9_]*', name):
        return name
    if name.startswith('|') and name.endswith('|'):
        return name
    return '|%s|' % name


def prelude_from_trace_decls(decl_records, skip=()):
    """decl_records: 'decl' records of one logic context from the osim log (simulator's own term printer)."""
    sorts = []
    lines = []
    for d in decl_records:
        for s in d['args'] + [d['ret']]:
            for u in sorts_in(s):
                if u not in sorts:
                    sorts.append(u)
    for u in sorts:
        lines.append('(declare-sort %s 0)' % quote(u))
    for d in decl_records:
        if d['name'] in skip:
            continue
        lines.append('(declare-fun %s (%s) %s)' % (quote(d['name']), ' '.join(d['args']), d['ret']))
    return '\n'.join(lines)
