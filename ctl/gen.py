"""Typed random generator of SMT-LIB histories (DESIGN.md 3.4).

The generator owns its own AST (class T) and its own printer, so the text shown to OpenSMT and the text shown
to the reference solvers come from the same tree and never from OpenSMT's printer.
Commands are plain JSON-serialisable dicts; terms inside commands are carried as text:
  'text' : as sent to OpenSMT (with (! .. :named ..) annotations)
  'ref'  : the same term with annotations stripped (what the reference solvers see)
"""
from fractions import Fraction

BOUNDARY_INTS = [0, 1, -1, 2, -2, 3, 7, 10, 2**31 - 1, -2**31, 2**32 - 1, 2**32, 2**53, 2**63 - 1, -2**63, 2**63, 10**30]
SMALL_FRACS = [Fraction(1, 2), Fraction(-1, 2), Fraction(1, 3), Fraction(3, 2), Fraction(-7, 4), Fraction(1, 10)]

PROFILES = {
    # name: logic string, numeric sorts, uninterpreted sorts/functions, arrays, difference fragment
    'PROP': dict(logic='QF_UF', nums=[], uf=False, usorts=0, arrays=False, dl=False),
    'QF_UF': dict(logic='QF_UF', nums=[], uf=True, usorts=2, arrays=False, dl=False),
    'QF_LRA': dict(logic='QF_LRA', nums=['Real'], uf=False, usorts=0, arrays=False, dl=False),
    'QF_LIA': dict(logic='QF_LIA', nums=['Int'], uf=False, usorts=0, arrays=False, dl=False),
    'QF_RDL': dict(logic='QF_RDL', nums=['Real'], uf=False, usorts=0, arrays=False, dl=True),
    'QF_IDL': dict(logic='QF_IDL', nums=['Int'], uf=False, usorts=0, arrays=False, dl=True),
    'QF_UFLRA': dict(logic='QF_UFLRA', nums=['Real'], uf=True, usorts=1, arrays=False, dl=False),
    'QF_UFLIA': dict(logic='QF_UFLIA', nums=['Int'], uf=True, usorts=1, arrays=False, dl=False),
    'QF_UFRDL': dict(logic='QF_UFRDL', nums=['Real'], uf=True, usorts=1, arrays=False, dl=True),
    'QF_UFIDL': dict(logic='QF_UFIDL', nums=['Int'], uf=True, usorts=1, arrays=False, dl=True),
    'QF_AX': dict(logic='QF_AX', nums=[], uf=False, usorts=2, arrays=True, dl=False),
    'QF_ALRA': dict(logic='QF_ALRA', nums=['Real'], uf=False, usorts=0, arrays=True, dl=False),
    'QF_ALIA': dict(logic='QF_ALIA', nums=['Int'], uf=False, usorts=0, arrays=True, dl=False),
    'QF_AUFLRA': dict(logic='QF_AUFLRA', nums=['Real'], uf=True, usorts=1, arrays=True, dl=False),
    'QF_AUFLIA': dict(logic='QF_AUFLIA', nums=['Int'], uf=True, usorts=1, arrays=True, dl=False),
    'QF_AUFLIRA': dict(logic='QF_AUFLIRA', nums=['Int', 'Real'], uf=True, usorts=1, arrays=True, dl=False),
    'ALL': dict(logic='ALL', nums=['Int', 'Real'], uf=True, usorts=1, arrays=True, dl=False),
}
ALL_PROFILES = list(PROFILES)
MODEL_PROFILES = ['PROP', 'QF_UF', 'QF_LRA', 'QF_LIA', 'QF_RDL', 'QF_IDL', 'QF_UFLRA', 'QF_UFLIA', 'QF_UFRDL', 'QF_UFIDL']
NONINT_PROFILES = ['PROP', 'QF_UF', 'QF_LRA', 'QF_RDL', 'QF_UFLRA', 'QF_UFRDL', 'QF_AX', 'QF_ALRA', 'QF_AUFLRA']
ITP_PROFILES = ['PROP', 'QF_UF', 'QF_LRA', 'QF_LIA']
LA_PROFILES = ['QF_LRA', 'QF_LIA', 'QF_UFLRA', 'QF_UFLIA', 'QF_ALRA', 'QF_ALIA', 'QF_AUFLRA', 'QF_AUFLIA', 'QF_AUFLIRA', 'ALL']

# logic embeddings for C05: a script legal in key is legal in each value
EMBEDDINGS = {
    'QF_IDL': ['QF_LIA', 'QF_UFIDL', 'QF_UFLIA', 'QF_AUFLIA', 'ALL'],
    'QF_RDL': ['QF_LRA', 'QF_UFRDL', 'QF_UFLRA', 'QF_AUFLRA', 'ALL'],
    'QF_LIA': ['QF_UFLIA', 'QF_ALIA', 'QF_AUFLIA', 'QF_AUFLIRA', 'ALL'],
    'QF_LRA': ['QF_UFLRA', 'QF_ALRA', 'QF_AUFLRA', 'QF_AUFLIRA', 'ALL'],
    'QF_UF': ['QF_UFLRA', 'QF_UFLIA', 'QF_AUFLIA', 'ALL'],
    'QF_UFLIA': ['QF_AUFLIA', 'QF_AUFLIRA', 'ALL'],
    'QF_UFLRA': ['QF_AUFLRA', 'QF_AUFLIRA', 'ALL'],
    'QF_UFIDL': ['QF_UFLIA', 'QF_AUFLIA', 'ALL'],
    'QF_UFRDL': ['QF_UFLRA', 'QF_AUFLRA', 'ALL'],
    'QF_ALIA': ['QF_AUFLIA', 'QF_AUFLIRA', 'ALL'],
    'QF_ALRA': ['QF_AUFLRA', 'QF_AUFLIRA', 'ALL'],
    'QF_AUFLIA': ['QF_AUFLIRA', 'ALL'],
    'QF_AUFLRA': ['QF_AUFLIRA', 'ALL'],
}


class T:
    """Term. op: 'var' | 'num' | 'true' | 'false' | 'app' | 'let' | 'named'."""
    __slots__ = ('op', 'head', 'args', 'sort', 'val', 'binds', 'name')

    def __init__(self, op, sort, head=None, args=(), val=None, binds=None, name=None):
        self.op, self.sort, self.head, self.args, self.val, self.binds, self.name = op, sort, head, list(args), val, binds, name


def num_text(v, sort):
    """SMT-LIB text of a rational constant in the given sort (Real constants always carry a decimal point)."""
    v = Fraction(v)
    neg = v < 0
    a = -v if neg else v
    if sort == 'Int':
        assert a.denominator == 1
        s = str(a.numerator)
    elif a.denominator == 1:
        s = '%d.0' % a.numerator
    else:
        s = '(/ %d.0 %d.0)' % (a.numerator, a.denominator)
    return '(- %s)' % s if neg else s


def pr(t, names=True):
    o = t.op
    if o == 'var':
        return t.val
    if o == 'num':
        return num_text(t.val, t.sort)
    if o in ('true', 'false'):
        return o
    if o == 'app':
        if not t.args:
            return t.head
        return '(' + t.head + ' ' + ' '.join(pr(a, names) for a in t.args) + ')'
    if o == 'let':
        return '(let (' + ' '.join('(%s %s)' % (n, pr(b, names)) for n, b in t.binds) + ') ' + pr(t.args[0], names) + ')'
    if o == 'named':
        if names:
            return '(! %s :named %s)' % (pr(t.args[0], names), t.name)
        return pr(t.args[0], names)
    raise ValueError(o)


def collect_named(t, out, toplevel=True):
    """All (name, ref-text, is_bool, is_toplevel) introduced by :named annotations inside t."""
    if t.op == 'named':
        out.append((t.name, pr(t.args[0], False), t.sort == 'Bool', toplevel))
        collect_named(t.args[0], out, False)
        return
    for a in t.args:
        collect_named(a, out, False)
    if t.op == 'let':
        for _, b in t.binds:
            collect_named(b, out, False)


def symbols_of(t, out):
    if t.op == 'var':
        out.add(t.val)
    elif t.op == 'app':
        out.add(t.head)
    for a in t.args:
        symbols_of(a, out)
    if t.op == 'let':
        for _, b in t.binds:
            symbols_of(b, out)


class Signature:
    def __init__(self):
        self.sorts = []      # uninterpreted sort names
        self.consts = {}     # sort -> [names]
        self.funs = []       # (name, [argsorts], ret)
        self.decl_cmds = []  # command dicts

    def funs_returning(self, sort):
        return [f for f in self.funs if f[2] == sort]


def make_signature(rng, prof, bool_args=True, nconsts=(2, 4), xnames=0.125):
    sig = Signature()
    p = PROFILES[prof]
    for i in range(p['usorts'] if p['usorts'] <= 1 else rng.randint(1, p['usorts'])):
        sig.sorts.append('U%d' % i)
    # (one signature in eight names its Boolean constants x0, x1, ..: the names OpenSMT uses for the formal arguments of the
    # functions it prints in models, so that the printer has to rename)
    bpre = 'x' if rng.random() < xnames else 'b'
    sig.consts['Bool'] = ['%s%d' % (bpre, i) for i in range(rng.randint(2, 5))]
    for ns in p['nums']:
        pre = 'i' if ns == 'Int' else 'r'
        sig.consts[ns] = ['%s%d' % (pre, i) for i in range(rng.randint(*nconsts))]
    for u in sig.sorts:
        sig.consts[u] = ['%s_c%d' % (u.lower(), i) for i in range(rng.randint(*nconsts))]
    if p['uf']:
        cands = []
        base = list(sig.sorts) + list(p['nums'])
        for u in sig.sorts:
            cands += [('f_' + u.lower(), [u], u), ('g_' + u.lower(), [u, u], u), ('p_' + u.lower(), [u], 'Bool')]
        for ns in p['nums']:
            pre = ns.lower()
            cands += [('fn_' + pre, [ns], ns), ('pn_' + pre, [ns], 'Bool'), ('gn_' + pre, [ns, ns], ns)]
            for u in sig.sorts:
                cands += [('fu_' + pre, [ns], u), ('h_' + pre, [u], ns)]
        if base and bool_args:
            cands += [('fb', ['Bool'], base[0]), ('pb', ['Bool', base[0]], 'Bool')]
        rng.shuffle(cands)
        sig.funs = cands[:rng.randint(1, 4)]
    if p['arrays']:
        isorts = p['nums'] + sig.sorts
        nar = rng.randint(1, 2)
        idx = rng.choice(isorts)
        elt = rng.choice(isorts)
        asort = '(Array %s %s)' % (idx, elt)
        sig.consts[asort] = ['a%d' % i for i in range(nar + 1)]
        sig.array = (asort, idx, elt)
    else:
        sig.array = None
    for u in sig.sorts:
        sig.decl_cmds.append({'k': 'declare-sort', 'name': u, 'text': '(declare-sort %s 0)' % u})
    for s, names in sig.consts.items():
        for n in names:
            if rng.random() < 0.3:
                sig.decl_cmds.append({'k': 'declare-fun', 'name': n, 'args': [], 'ret': s, 'text': '(declare-const %s %s)' % (n, s)})
            else:
                sig.decl_cmds.append({'k': 'declare-fun', 'name': n, 'args': [], 'ret': s, 'text': '(declare-fun %s () %s)' % (n, s)})
    for n, a, r in sig.funs:
        sig.decl_cmds.append({'k': 'declare-fun', 'name': n, 'args': a, 'ret': r, 'text': '(declare-fun %s (%s) %s)' % (n, ' '.join(a), r)})
    return sig


class TermGen:
    def __init__(self, rng, prof, sig, big_consts=0.15, max_depth=4):
        self.rng, self.prof, self.sig, self.p = rng, prof, sig, PROFILES[prof]
        self.big = big_consts
        self.max_depth = max_depth
        self.macros = []   # live define-funs: (name, [param sorts], ret)
        self.let_id = 0
        self.let_depth = 0
        self.allow_let = True
        # "uf-heavy" mode (combined logics): numeric positions are often applications of uninterpreted functions and
        # comparisons are often (dis)equalities between such applications, so that theory combination (interface
        # equalities, values invented by the Egraph model builder next to Simplex values) carries the answer
        self.uf_heavy = False
        # term memory: non-Boolean compound terms generated earlier in this history (outside let bodies and macro bodies) are
        # re-used as subterms of later assertions, also across push/pop: div/mod, ite, select/store and UF applications meet the
        # caches of the preprocessing passes (definitions of auxiliary variables, purification, CNF) a second time
        self.memory = {}
        self.reuse = 0.0
        self.no_memory = False

    # ---------------------------------------------------------------- constants
    def const(self, sort):
        r = self.rng
        if r.random() < self.big:
            v = r.choice(BOUNDARY_INTS)
            if r.random() < 0.3:
                v += r.choice([-1, 1])
        else:
            v = r.randint(-4, 6)
        v = Fraction(v)
        if sort == 'Real' and r.random() < 0.3:
            v = r.choice(SMALL_FRACS) if r.random() < 0.6 else Fraction(r.randint(-9, 9), r.randint(1, 7))
        return T('num', sort, val=v)

    def nonzero_const(self, sort):
        while True:
            c = self.const(sort)
            if c.val != 0:
                return c

    def var(self, sort):
        return T('var', sort, val=self.rng.choice(self.sig.consts[sort]))

    # ---------------------------------------------------------------- terms of a sort
    def term(self, sort, d):
        if sort == 'Bool':
            return self.boolean(d)
        if sort in ('Int', 'Real'):
            return self.numeric(sort, d)
        if sort.startswith('(Array'):
            return self.array(d)
        return self.uterm(sort, d)

    def app_candidates(self, sort):
        out = list(self.sig.funs_returning(sort))
        out += [m for m in self.macros if m[2] == sort]
        return out

    def uf_app(self, f, d):
        return self.remember(T('app', f[2], head=f[0], args=[self.term(s, d - 1) for s in f[1]]))

    def remember(self, t):
        if self.no_memory or self.let_depth > 0 or t.sort == 'Bool' or t.op != 'app' or not t.args:
            return t
        m = self.memory.setdefault(t.sort, [])
        if len(m) < 40:
            m.append(t)
        return t

    def recall(self, sort):
        """A remembered term of that sort whose macros are all still defined, or None."""
        m = self.memory.get(sort)
        if not m or self.no_memory or self.rng.random() >= self.reuse:
            return None
        t = self.rng.choice(m)
        syms = set()
        symbols_of(t, syms)
        live = {mm[0] for mm in self.macros}
        if any(x[:1] == 'm' and x[1:].isdigit() and x not in live for x in syms):
            return None
        return t

    def uterm(self, sort, d):
        r = self.rng
        c = r.random()
        if d > 0:
            t0 = self.recall(sort)
            if t0 is not None:
                return t0
        if d <= 0 or c < 0.4:
            return self.var(sort)
        cands = self.app_candidates(sort)
        if cands and c < 0.75:
            return self.uf_app(r.choice(cands), d)
        if self.sig.array and self.sig.array[2] == sort and c < 0.85:
            return self.remember(T('app', sort, head='select', args=[self.array(d - 1), self.term(self.sig.array[1], d - 1)]))
        if c < 0.95:
            return self.remember(T('app', sort, head='ite', args=[self.boolean(d - 1), self.uterm(sort, d - 1), self.uterm(sort, d - 1)]))
        return self.var(sort)

    def array(self, d):
        asort, idx, elt = self.sig.array
        if d <= 0 or self.rng.random() < 0.5:
            return self.var(asort)
        t0 = self.recall(asort)
        if t0 is not None:
            return t0
        if self.rng.random() < 0.85:
            return self.remember(T('app', asort, head='store', args=[self.array(d - 1), self.term(idx, d - 1), self.term(elt, d - 1)]))
        return T('app', asort, head='ite', args=[self.boolean(d - 1), self.array(d - 1), self.array(d - 1)])

    def numeric(self, sort, d):
        r = self.rng
        if self.p['dl']:
            return self.dl_leaf(sort, d)
        c = r.random()
        if d > 0:
            t0 = self.recall(sort)
            if t0 is not None:
                return t0
        if self.uf_heavy and d > -2 and r.random() < (0.45 if d > 0 else 0.3):
            cands = self.sig.funs_returning(sort)
            if cands:
                return self.uf_app(r.choice(cands), d)
        if d <= 0 or c < 0.3:
            return self.var(sort) if r.random() < 0.75 else self.const(sort)
        if c < 0.5:
            n = r.randint(2, 3)
            return T('app', sort, head='+', args=[self.numeric(sort, d - 1) for _ in range(n)])
        if c < 0.6:
            n = r.randint(1, 2)
            return self.remember(T('app', sort, head='-', args=[self.numeric(sort, d - 1) for _ in range(n)]))
        if c < 0.72:
            args = [self.const(sort), self.numeric(sort, d - 1)]
            if r.random() < 0.3:
                args.reverse()
            if r.random() < 0.15:
                args.append(self.const(sort))
            return T('app', sort, head='*', args=args)
        if c < 0.8:
            return self.remember(T('app', sort, head='ite', args=[self.boolean(d - 1), self.numeric(sort, d - 1), self.numeric(sort, d - 1)]))
        if c < 0.88:
            if sort == 'Int':
                k = self.nonzero_const('Int') if r.random() < 0.3 else T('num', 'Int', val=Fraction(r.choice([2, 3, -2, 5, -3, 1, -1])))
                return self.remember(T('app', 'Int', head=r.choice(['div', 'mod']), args=[self.numeric('Int', d - 1), k]))
            return self.remember(T('app', 'Real', head='/', args=[self.numeric('Real', d - 1), self.nonzero_const('Real')]))
        cands = self.app_candidates(sort)
        if cands and c < 0.96:
            return self.uf_app(r.choice(cands), d)
        if self.sig.array and self.sig.array[2] == sort:
            return T('app', sort, head='select', args=[self.array(d - 1), self.term(self.sig.array[1], d - 1)])
        return self.var(sort)

    # ---------------------------------------------------------------- difference-logic fragment
    def dl_leaf(self, sort, d):
        r = self.rng
        cands = [f for f in self.sig.funs_returning(sort)]
        if cands and d > 0 and r.random() < 0.25:
            f = r.choice(cands)
            return T('app', sort, head=f[0], args=[self.dl_arg(s, d - 1) for s in f[1]])
        return self.var(sort)

    def dl_arg(self, s, d):
        if s in ('Int', 'Real'):
            return self.dl_leaf(s, d)
        return self.term(s, d)

    def dl_atom(self, sort, d):
        r = self.rng
        op = r.choice(['<', '<=', '>', '>=', '=', '<=', '<', 'distinct'])
        x, y = self.dl_leaf(sort, d), self.dl_leaf(sort, d)
        form = r.random()
        if form < 0.55:
            lhs = T('app', sort, head='-', args=[x, y])
            rhs = self.const(sort)
        elif form < 0.85:
            lhs, rhs = x, y
        else:
            lhs, rhs = x, self.const(sort)
        if r.random() < 0.15:
            lhs, rhs = rhs, lhs
        return T('app', 'Bool', head=op, args=[lhs, rhs])

    # ---------------------------------------------------------------- dense linear atoms ("la-dense" mode)
    def la_atom(self, sort):
        """Bound on a variable or on a short linear combination of 2-3 variables with small coefficients: a few such atoms over
        3-4 variables make tableau rows whose bounds interact (activation of rows, pivots on non-unit entries, restored
        assignments after a failed check)."""
        r = self.rng
        vs = self.sig.consts[sort]
        k = 1 if r.random() < 0.4 else min(len(vs), r.choice([2, 2, 3]))
        xs = r.sample(vs, k)
        terms = []
        for x in xs:
            c = r.choice([1, 1, 1, -1, -1, 2, -2, 3]) if sort == 'Int' else r.choice([1, 1, 1, -1, -1, 2, -2, 3, Fraction(1, 2), Fraction(-3, 2)])
            v = T('var', sort, val=x)
            terms.append(v if c == 1 else T('app', sort, head='*', args=[T('num', sort, val=Fraction(c)), v]))
        lhs = terms[0] if len(terms) == 1 else T('app', sort, head='+', args=terms)
        rhs = T('num', sort, val=Fraction(r.randint(-6, 8)))
        if sort == 'Real' and r.random() < 0.35:
            # bounds less than 1 apart (strict bound next to a close non-strict one: the model needs a small enough delta)
            rhs = T('num', sort, val=r.choice(SMALL_FRACS + [Fraction(-1, 10), Fraction(9, 10), Fraction(1, 4), Fraction(0), Fraction(1, 100)]))
        op = r.choice(['<=', '>=', '<=', '>=', '<', '>', '='])
        return T('app', 'Bool', head=op, args=[lhs, rhs] if r.random() < 0.85 else [rhs, lhs])

    # ---------------------------------------------------------------- dense EUF atoms ("uf-dense" mode)
    def uf_atom(self):
        """(Dis)equalities between a few constants of one uninterpreted sort and shallow applications over them, repeated
        arguments included: congruence closure with many merges, explanations that run through congruence edges."""
        r = self.rng
        u = r.choice(self.sig.sorts)
        cs = self.sig.consts[u][:4]
        fs = [f for f in self.sig.funs if f[2] == u and all(a == u for a in f[1])]

        def leaf():
            return T('var', u, val=r.choice(cs))

        def term(d):
            if not fs or d <= 0 or r.random() < 0.35:
                return leaf()
            f = r.choice(fs)
            if len(f[1]) >= 2 and r.random() < 0.3:
                x = term(d - 1)
                return T('app', u, head=f[0], args=[x] * len(f[1]))      # the same argument in every position
            return T('app', u, head=f[0], args=[term(d - 1) for _ in f[1]])
        a, b = term(2), term(2)
        return T('app', 'Bool', head='=' if r.random() < 0.8 else 'distinct', args=[a, b])

    # ---------------------------------------------------------------- dense array atoms ("ax-dense" mode)
    def ax_atom(self):
        r = self.rng
        asort, idx, elt = self.sig.array
        arrs = self.sig.consts[asort]

        def leaf(sort):
            if sort in ('Int', 'Real'):
                return self.var(sort) if r.random() < 0.8 else T('num', sort, val=Fraction(r.randint(0, 2)))
            return self.var(sort)
        a, b = T('var', asort, val=r.choice(arrs)), T('var', asort, val=r.choice(arrs))
        c = r.random()
        if c < 0.3:
            st = T('app', asort, head='store', args=[b, leaf(idx), leaf(elt)])
            if r.random() < 0.25:
                st = T('app', asort, head='store', args=[st, leaf(idx), leaf(elt)])
            return T('app', 'Bool', head='=', args=[a, st] if r.random() < 0.5 else [st, a])
        if c < 0.5:
            return T('app', 'Bool', head='=', args=[leaf(idx), leaf(idx)])
        if c < 0.8:
            return T('app', 'Bool', head='=', args=[T('app', elt, head='select', args=[a, leaf(idx)]), T('app', elt, head='select', args=[b, leaf(idx)])])
        if c < 0.92:
            return T('app', 'Bool', head='=', args=[T('app', elt, head='select', args=[a, leaf(idx)]), leaf(elt)])
        return T('app', 'Bool', head='=', args=[a, b])

    # ---------------------------------------------------------------- atoms and Boolean structure
    def atom(self, d):
        r = self.rng
        if d < -1:
            return self.var('Bool')
        kinds = ['bvar']
        if self.p['nums']:
            kinds += ['cmp', 'cmp', 'cmp']
        if self.sig.sorts:
            kinds += ['ueq', 'ueq']
        preds = self.app_candidates('Bool')
        if preds:
            kinds += ['pred']
        if self.sig.array:
            kinds += ['aeq', 'ueq' if self.sig.sorts else 'aeq']
        k = r.choice(kinds)
        if k == 'bvar':
            return self.var('Bool')
        if k == 'cmp':
            sort = r.choice(self.p['nums'])
            if self.p['dl']:
                return self.dl_atom(sort, d)
            op = r.choice(['<', '<=', '>', '>=', '=', '<=', 'distinct'])
            if self.uf_heavy and r.random() < 0.4:
                op = r.choice(['=', 'distinct', '>=', '<='])
                d = max(d, 2)
            n = 3 if (op not in ('distinct',) and r.random() < 0.12) else 2
            return T('app', 'Bool', head=op, args=[self.numeric(sort, d - 1) for _ in range(n)])
        if k == 'ueq':
            sort = r.choice(self.sig.sorts)
            op = '=' if r.random() < 0.75 else 'distinct'
            n = 3 if r.random() < 0.15 else 2
            return T('app', 'Bool', head=op, args=[self.uterm(sort, d - 1) for _ in range(n)])
        if k == 'pred':
            return self.uf_app(r.choice(preds), d)
        if k == 'aeq':
            return T('app', 'Bool', head='=' if r.random() < 0.7 else 'distinct', args=[self.array(d - 1), self.array(d - 1)])
        return self.var('Bool')

    def boolean(self, d):
        r = self.rng
        c = r.random()
        if self.allow_let and 0 < self.let_depth < 3 and d > 0 and r.random() < 0.25:
            return self.make_let(d)     # lets nest (and shadow) much more often than they start
        if d <= 0 or c < 0.35:
            return self.atom(d)
        if c < 0.5:
            return T('app', 'Bool', head='not', args=[self.boolean(d - 1)])
        if c < 0.78:
            return T('app', 'Bool', head=r.choice(['and', 'or', 'or']), args=[self.boolean(d - 1) for _ in range(r.randint(2, 3))])
        if c < 0.84:
            return T('app', 'Bool', head='=>', args=[self.boolean(d - 1) for _ in range(2)])
        if c < 0.88:
            return T('app', 'Bool', head='xor', args=[self.boolean(d - 1) for _ in range(2)])
        if c < 0.92:
            return T('app', 'Bool', head='=', args=[self.boolean(d - 1), self.boolean(d - 1)])
        if c < 0.96:
            return T('app', 'Bool', head='ite', args=[self.boolean(d - 1), self.boolean(d - 1), self.boolean(d - 1)])
        if not self.allow_let:
            return self.atom(d)
        return self.make_let(d)

    def make_let(self, d):
        r = self.rng
        # let: bind one or two subterms, use them in the body. A binder may re-use the name of an enclosing let binder of
        # the same sort (shadowing; the binding term is still read in the outer scope, so (let ((x x)) ..) can arise too)
        self.let_id += 1
        my_id = self.let_id
        sorts = ['Bool'] + ([r.choice(self.p['nums'])] if (self.p['nums'] and not self.p['dl']) else [])
        binds = []
        saved = []
        for k, s in enumerate(sorts):
            nm = 'l%d_%d' % (my_id, k)
            outer = [x for x in self.sig.consts.get(s, []) if x[:1] == 'l' and '_' in x and x not in [b[0] for b in binds]]
            if outer and r.random() < 0.35:
                nm = r.choice(outer)
                if r.random() < 0.3:
                    binds.append((nm, T('var', s, val=nm)))
                    continue
            binds.append((nm, self.term(s, d - 1)))
        for (nm, b) in binds:
            saved.append((nm, b.sort))
            self.sig.consts.setdefault(b.sort, [])
        # make the bound names available as variables of their sort while generating the body
        for nm, s in saved:
            self.sig.consts[s] = self.sig.consts[s] + [nm]
        self.let_depth += 1
        body = self.boolean(d - 1)
        self.let_depth -= 1
        for nm, s in saved:
            lst = list(self.sig.consts[s])
            for j in range(len(lst) - 1, -1, -1):
                if lst[j] == nm:
                    del lst[j]
                    break
            self.sig.consts[s] = lst
        return T('let', 'Bool', args=[body], binds=binds)


def strip_names(t):
    """Copy of t without (! .. :named ..) annotations (a formula that is re-used must not introduce its names again)."""
    if t.op == 'named':
        return strip_names(t.args[0])
    if not t.args and t.op != 'let':
        return t
    n = T(t.op, t.sort, head=t.head, args=[strip_names(a) for a in t.args], val=t.val, name=t.name,
          binds=[(nm, strip_names(b)) for nm, b in t.binds] if t.binds else t.binds)
    return n


def negate(t):
    return T('app', 'Bool', head='not', args=[t])


def conj(ts):
    return ts[0] if len(ts) == 1 else T('app', 'Bool', head='and', args=ts)
