"""python3-vt -m ctl.debug <Cnn> <idx> [seed]  -- run one generated case and print what happened."""
import json
import sys

from . import main as M
from . import runner


def run(pid, idx, seed=None, verbose=True):
    chk = M.registry()[pid]()
    if seed is None:
        seed = 1000003 * int(pid[1:]) + 17
    case = chk.gen_case(seed, idx, 'quick')
    ctx = runner.Ctx()
    try:
        if hasattr(chk, 'build_plan') and 'hist' in case and 'configs' not in case:
            plan, resp = chk.execute(ctx, case)
            if verbose:
                cmds = plan['commands']
                outs = {e['i']: e for e in resp['log'] if e.get('ev') == 'cmd'}
                for i, c in enumerate(cmds):
                    o = outs.get(i)
                    print('%3d %s' % (i, c[:400]))
                    if o and o['out'].strip():
                        print('      -> %s  [%d ticks]%s' % (o['out'].strip()[:600].replace('\n', '\n         '), o['ticks'], ' EXC ' + o.get('exception', '') if 'exception' in o else ''))
                print('exit', resp.get('exit'), 'sig', resp.get('sig'), 'death', runner.death_of(resp))
                print('stderr:', resp.get('stderr', '')[:2000])
                for e in resp['log']:
                    if e.get('ev') not in ('cmd', 'decl', 'frame', 'tclause'):
                        print(json.dumps(e)[:600])
        res = chk.run_case(ctx, case)
        res.pop('case', None)
        print(json.dumps({k: v for k, v in res.items()}, indent=1)[:3000])
    finally:
        ctx.close()


if __name__ == '__main__':
    run(sys.argv[1], int(sys.argv[2]), int(sys.argv[3]) if len(sys.argv) > 3 else None)
