"""C22: theory solver verdicts depend only on the asserted literals (engine T)."""
import copy
import os

from . import config as cfg
from . import gen, hist
from .refs import RefError, prelude_from_trace_decls
from .runner import Check, sim_ticks, bump, death_of, empty_result, log_hash, stable_hash, sub_rng

PURE_SAT_SIDE = {'QF_UF', 'QF_LRA', 'QF_RDL', 'QF_IDL'}


class C22(Check):
    pid = 'C22'
    profiles = ['QF_UF', 'QF_UF', 'QF_LRA', 'QF_LRA', 'QF_LIA', 'QF_RDL', 'QF_IDL', 'QF_AX', 'QF_AX', 'QF_UFLRA', 'QF_UFLIA', 'QF_ALIA', 'QF_ALRA', 'QF_UFIDL']
    technique = 'deterministic simulation of the SAT-engine/theory interface: seeded assert/check/backtrack sequences against the real THandler, R-truth oracle per step'
    rule = ('atom pool produced by the real preprocessing + CNF pipeline (<= 24 atoms); the simulator plays the SAT engine and issues <= 200 seeded assert / check(incomplete|complete) / '
            'backtrack operations on the real THandler (LA, UF, array, IDL, RDL, UFLA handlers), adopting theory deductions and asking for their reasons after a temporary '
            'backtrack as conflict analysis does; after every step: an UNSAT verdict needs R-truth(trail)=unsat and a conflict made of negations of trail literals that is '
            'theory-unsatisfiable by itself; a reason cites only literals asserted before the propagated one and implies it; in a third of the LRA/EUF/RDL/IDL runs one literal set is asserted in 20-40 different orders and the verdicts must agree (order independence, references consulted only on disagreement); a complete-check SAT with no pending split in LRA/EUF/RDL/IDL needs R-truth(trail)=sat; non-trivial = a backtrack followed by an assertion '
            'and a check, with both verdicts present; distinct = hash of (formulas, operation list)')

    def gen_case(self, seed, idx, tier):
        r = sub_rng(seed, self.pid, idx, 'p')
        prof = r.choice(self.profiles)
        if os.environ.get('VERIF_PROFILES'):   # maintenance: focus a run on some logics (never set by a registered command)
            prof = r.choice(os.environ['VERIF_PROFILES'].split(','))
        h = hist.gen_history(sub_rng(seed, self.pid, idx, 'hist'), prof, clausal=1.0, max_push=0, ncmds=(4, 10), bool_args=False, unsat_bias=0.0, final_check=False, p_check=0.0,
                             big=r.choice([0.05, 0.15, 0.4]), max_depth=2)
        asserts = [c['text'] for c in h['commands'] if c['k'] == 'assert']
        ro = sub_rng(seed, self.pid, idx, 'ops')
        nops = ro.randint(10, 200 if tier == 'thorough' else 120)
        ops = []
        # swarm: some runs adopt theory deductions the way the SAT engine does (all / a seeded subset / none) and ask for their
        # reasons later, after further assertions (temporary backtrack as in conflict analysis)
        adopt_mode = ro.choice(['none', 'none', 'all', 'all', 'some'])
        p_reason = ro.choice([0.0, 0.05, 0.12]) if adopt_mode != 'none' else 0.0
        # swarm: how often the trail is checked (a latent inconsistency is only seen by the complete check that follows the
        # critical assertion before the trail changes again), how often completely, how positive the literals are
        p_assert, p_complete, p_neg = ro.choice([(0.5, 0.55, 0.5), (0.4, 0.9, 0.5), (0.4, 0.9, 0.25), (0.45, 0.75, 0.1)])
        p_bt = ro.choice([0.22, 0.12])
        for _ in range(nops):
            c = ro.random()
            if c < p_assert - p_reason:
                ops.append(['assert', ro.randint(0, 1000), ro.random() < p_neg])
            elif c < p_assert:
                ops.append(['reason', ro.randint(0, 1000)])
            elif c < 1.0 - p_bt:
                mask = 0 if adopt_mode == 'none' else ((1 << 30) - 1 if adopt_mode == 'all' else ro.getrandbits(30))
                ops.append(['check', ro.random() < p_complete, mask])
            else:
                ops.append(['backtrack', ro.choice([1, 1, 1, 2, 3, 5])])
        mode = 'ops'
        if h['logic'] in PURE_SAT_SIDE and ro.random() < 0.3:
            # "perm" mode: one set of literals asserted in many different orders within one run (backtrack to the empty trail
            # in between). The verdict for a set must not depend on the order - no reference solver is needed to see a
            # disagreement, so a run covers 20-40 assertion orders for the price of one.
            mode = 'perm'
            ops = []
            dl = h['logic'] in ('QF_RDL', 'QF_IDL')
            k = ro.randint(5, 10) if dl else ro.randint(4, 9)
            pn = 0.1 if dl else ro.choice([0.1, 0.3])
            lits = [(ro.randint(0, 1000), ro.random() < pn) for _ in range(k)]
            # (the difference-logic solver is by far the cheapest per operation: more orders there)
            for _ in range(ro.randint(60, 120) if dl else ro.randint(20, 40)):
                order = lits[:]
                ro.shuffle(order)
                ops.append(['backtrack', 100000])
                for (a, neg) in order:
                    ops.append(['assert', a, neg])
                ops.append(['check', True, 0])
        opts = []
        if ro.random() < 0.2:
            opts.append([':do-substitutions', 'false'])
        unusual = {}
        if ro.random() < 0.4:
            unusual['BLAND'] = [1 if ro.random() < 0.3 else -1 for _ in range(ro.randint(1, 40))]
        if ro.random() < 0.4:
            unusual['CUT'] = [ro.choice([0, 1, 1, -1]) for _ in range(ro.randint(1, 40))]
        return {'pid': self.pid, 'idx': idx, 'profile': prof, 'logic': h['logic'], 'decls': [d['text'] for d in h['decls']], 'asserts': asserts, 'ops': ops, 'options': opts, 'unusual': unusual,
                'mode': mode}

    def build_plan(self, case):
        return {'id': case.get('idx', 0), 'engine': 'T', 'logic': case['logic'], 'options': case['options'], 'knobs': {}, 'unusual': case.get('unusual', {}),
                'monitors': {'tclauses': False, 'farkas': False}, 'commands': case['decls'] + case['asserts'], 'ops': case['ops'], 'budget_ticks': 200000000, 'cpu_s': 60}

    def run_case(self, ctx, case):
        res = empty_result()
        resp = ctx.osim('sim').run(self.build_plan(case))
        res['hash'] = log_hash(resp)
        bump(res, 'runs')
        bump(res, 'sim-ticks', sim_ticks(resp))
        d = death_of(resp)
        if d and d[0] == 'harness':
            raise RuntimeError('harness: %r' % (d[1],))
        log = resp.get('log', [])
        if d:
            res['discarded'] = 'died:' + d[0]
            bump(res, 'died:' + d[0])
            return res
        if any(e.get('ev') in ('build-error', 't-trivial') for e in log):
            res['discarded'] = 'trivial-or-rejected'
            return res
        atoms = next((e for e in log if e.get('ev') == 't-atoms'), None)
        if not atoms or any(a == '' for a in atoms['atoms']):
            res['discarded'] = 'no-atoms'
            return res
        decls = [e for e in log if e.get('ev') == 'decl' and e['ctx'] == atoms['ctx']]
        prelude = prelude_from_trace_decls(decls)
        A = atoms['atoms']
        bump(res, 'atoms', len(A))

        def lits(trail):
            return [A[abs(x) - 1] if x > 0 else '(not %s)' % A[abs(x) - 1] for x in trail]
        if case.get('mode') == 'perm':
            return self.judge_perm(ctx, case, res, log, prelude, lits)
        seen_bt = False
        after_bt_assert = False
        verdicts = set()
        sat_len = 0                  # trail length covered by the last check that answered SAT
        unchecked_backtrack = False  # a backtrack kept literals that no successful check has covered yet
        for e in log:
            if e.get('ev') == 't-reason':
                bump(res, 'F-reason-after-temporary-backtrack')
                if e.get('off_prefix') and not res['violations']:
                    # the theory was taken back to the trail before the propagated literal: a reason that cites anything else
                    # depends on literals that are (at that moment) retracted
                    res['violations'].append({'cls': 'stale-literal-in-reason', 'sig': {'logic': case['logic']},
                                              'detail': {'step': e['i'], 'literal': lits([e['lit']])[0], 'prefix': lits(e['prefix']), 'reason': e['reason']}})
                    break
                if e.get('reason') and 0 not in e['reason'] and not res['violations']:
                    # the cited literals (all on the trail before the propagated one) must imply it
                    try:
                        t = ctx.refs.truth(prelude, lits([-x for x in e['reason']]))
                    except RefError:
                        t = None
                    if t == 'sat':
                        res['violations'].append({'cls': 'reason-does-not-imply-literal', 'sig': {'logic': case['logic']},
                                                  'detail': {'step': e['i'], 'literal': lits([e['lit']])[0], 'reason': lits([-x for x in e['reason'][1:]]), 'refs': ctx.refs.last_raw}})
                        break
                continue
            if e.get('ev') != 't-step':
                continue
            if e['op'] == 'adopt':
                bump(res, 'F-deductions-adopted', e.get('n', 0))
            bump(res, 'steps')
            cur_len = len(e['trail'])
            if e['op'] in ('check', 'check-complete') and e['res'] == 'SAT':
                sat_len = cur_len
            if e['op'] == 'backtrack' or e['res'] == 'UNSAT':
                after = cur_len if e['op'] == 'backtrack' else e.get('after', cur_len)
                if after > sat_len:
                    unchecked_backtrack = True
                    bump(res, 'P-unchecked-backtrack')
                sat_len = min(sat_len, after)
            if e['op'] == 'backtrack':
                seen_bt = True
                continue
            if e['op'] == 'assert' and seen_bt:
                after_bt_assert = True
            try:
                if e['res'] == 'UNSAT':
                    bump(res, 'verdict:UNSAT')
                    verdicts.add('UNSAT')
                    if e.get('conflict_off_trail'):
                        res['violations'].append({'cls': 'stale-literal-in-conflict', 'sig': {'logic': case['logic']}, 'detail': {'step': e['i'], 'trail': lits(e['trail']), 'conflict': e['conflict']}})
                        break
                    t = ctx.refs.truth(prelude, lits(e['trail']))
                    if t is None:
                        bump(res, 'unresolved')
                    elif t == 'sat':
                        res['violations'].append({'cls': 'spurious-inconsistency', 'sig': {'logic': case['logic'], 'op': e['op']}, 'detail': {'step': e['i'], 'trail': lits(e['trail']), 'refs': ctx.refs.last_raw}})
                        break
                    # the inconsistency the solver *reports* is the conflict set (a subset of the trail): it must be
                    # theory-unsatisfiable by itself
                    if e.get('conflict') and 0 not in e['conflict']:
                        cset = lits([-x for x in e['conflict']])
                        t = ctx.refs.truth(prelude, cset)
                        if t is None:
                            bump(res, 'unresolved')
                        elif t == 'sat':
                            res['violations'].append({'cls': 'reported-conflict-satisfiable', 'sig': {'logic': case['logic']}, 'detail': {'step': e['i'], 'conflict_set': cset, 'trail': lits(e['trail']), 'refs': ctx.refs.last_raw}})
                            break
                elif e['res'] == 'SAT' and e['op'] == 'check-complete':
                    bump(res, 'verdict:SAT')
                    verdicts.add('SAT')
                    if e.get('splits', 0) == 0 and case['logic'] in PURE_SAT_SIDE:
                        t = ctx.refs.truth(prelude, lits(e['trail']))
                        if t is None:
                            bump(res, 'unresolved')
                        elif t == 'unsat':
                            res['violations'].append({'cls': 'missed-inconsistency', 'sig': {'logic': case['logic'], 'unchecked_backtrack': unchecked_backtrack}, 'detail': {'step': e['i'], 'trail': lits(e['trail']), 'refs': ctx.refs.last_raw}})
                            break
            except RefError as err:
                bump(res, 'oracle-error')
                res.setdefault('notes', []).append(str(err)[:200])
        if after_bt_assert and len(verdicts) == 2:
            res['nontrivial'] = True
        res['key'] = stable_hash([case['asserts'], case['ops']])
        return res

    def judge_perm(self, ctx, case, res, log, prelude, lits):
        """Order independence: the runs between two backtracks-to-empty assert the same literals in different orders. A run
        ends UNSAT (some prefix was refuted) or SAT (complete check on the full set). For one literal set both outcomes
        cannot be right; the references say which one is wrong."""
        outcomes = {}     # frozenset(trail lits) for SAT / attempted set for UNSAT -> list of (outcome, step)
        cur_unsat = None
        attempted = []
        seen_conflicts = set()
        bump(res, 'F-assertion-orders', 0)
        for e in log:
            if e.get('ev') != 't-step':
                continue
            bump(res, 'steps')
            if e['op'] == 'backtrack' and not e['trail']:
                attempted, cur_unsat = [], None
                bump(res, 'F-assertion-orders')
                continue
            if e['res'] == 'UNSAT' and cur_unsat is None:
                cur_unsat = (e['i'], list(e['trail']))
                bump(res, 'verdict:UNSAT')
                # the reported conflict set must be a subset of the trail and theory-unsatisfiable by itself (distinct sets only)
                if e.get('conflict_off_trail'):
                    res['violations'].append({'cls': 'stale-literal-in-conflict', 'sig': {'logic': case['logic']}, 'detail': {'step': e['i'], 'trail': lits(e['trail']), 'conflict': e['conflict']}})
                    return res
                cs = frozenset(e.get('conflict') or [])
                if cs and 0 not in cs and cs not in seen_conflicts and len(seen_conflicts) < 12:
                    seen_conflicts.add(cs)
                    try:
                        t = ctx.refs.truth(prelude, lits(sorted((-x for x in cs), key=abs)))
                    except RefError:
                        t = None
                    if t == 'sat':
                        res['violations'].append({'cls': 'reported-conflict-satisfiable', 'sig': {'logic': case['logic']},
                                                  'detail': {'step': e['i'], 'conflict_set': lits(sorted((-x for x in cs), key=abs)), 'trail': lits(e['trail']), 'refs': ctx.refs.last_raw}})
                        return res
            if e['op'] == 'check-complete':
                if e['res'] == 'SAT' and cur_unsat is None and e.get('splits', 0) == 0:
                    bump(res, 'verdict:SAT')
                    outcomes.setdefault(frozenset(e['trail']), []).append(('SAT', e['i'], list(e['trail'])))
        # UNSAT outcomes refute a subset of the set the SAT outcomes accept: compare on the references only when both kinds occur
        unsat_runs = []
        cur = None
        for e in log:
            if e.get('ev') != 't-step':
                continue
            if e['op'] == 'backtrack' and not e['trail']:
                cur = None
                continue
            if e['res'] == 'UNSAT' and cur is None:
                cur = frozenset(e['trail'])
                unsat_runs.append((cur, e['i'], list(e['trail'])))
        for sat_set, runs in outcomes.items():
            for (uset, ui, utrail) in unsat_runs:
                if uset <= sat_set:
                    # some order refuted a subset of a set that another order accepted
                    t = None
                    try:
                        t = ctx.refs.truth(prelude, lits(sorted(sat_set, key=abs)))
                    except RefError:
                        bump(res, 'oracle-error')
                    if t == 'unsat':
                        res['violations'].append({'cls': 'missed-inconsistency', 'sig': {'logic': case['logic'], 'unchecked_backtrack': False, 'order_dependent': True},
                                                  'detail': {'step': runs[0][1], 'trail': lits(runs[0][2]), 'refuted_in_another_order_at_step': ui, 'refs': ctx.refs.last_raw}})
                    elif t == 'sat':
                        res['violations'].append({'cls': 'spurious-inconsistency', 'sig': {'logic': case['logic'], 'op': 'order', 'order_dependent': True},
                                                  'detail': {'step': ui, 'trail': lits(utrail), 'accepted_in_another_order_at_step': runs[0][1], 'refs': ctx.refs.last_raw}})
                    else:
                        bump(res, 'unresolved')
                    res['nontrivial'] = True
                    res['key'] = stable_hash([case['asserts'], case['ops']])
                    return res
        res['nontrivial'] = bool(outcomes) or bool(unsat_runs)
        res['key'] = stable_hash([case['asserts'], case['ops']])
        return res

    def shrink_steps(self, case):
        if case.get('mode') == 'perm':
            # drop whole assertion orders (from one backtrack-to-empty to the next)
            starts = [i for i, o in enumerate(case['ops']) if o[0] == 'backtrack' and o[1] >= 100000] + [len(case['ops'])]
            for a, b in zip(starts, starts[1:]):
                if len(starts) > 3:
                    c = copy.deepcopy(case)
                    del c['ops'][a:b]
                    yield c
            return
        for site in list(case.get('unusual', {})):
            c = copy.deepcopy(case)
            del c['unusual'][site]
            yield c
        n = len(case['ops'])
        size = n // 2
        while size >= 1:
            for start in range(n - size, -1, -size):
                c = copy.deepcopy(case)
                del c['ops'][start:start + size]
                yield c
            size //= 2
        for i in range(len(case['asserts'])):
            if len(case['asserts']) > 1:
                c = copy.deepcopy(case)
                del c['asserts'][i]
                yield c

    def sample_of(self, case):
        return {'logic': case['logic'], 'asserts': case['asserts'][:4], 'ops': case['ops'][:25]}


CHECKS = [C22]
