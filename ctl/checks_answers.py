"""C01, C02 (answers against R-truth), C04 (incremental vs fresh), C05 (configuration independence), C30 (bounded liveness)."""
import copy

from . import config as cfg
from . import gen, hist
from .hbase import HistCheck, answer_of, has_error
from .runner import bump, death_of, log_hash, stable_hash, sub_rng, empty_result, sim_ticks


def truth_of_snapshot(check, ctx, case, snap):
    return ctx.refs.truth(check.prelude(case, snap), [a['ref'] for a in snap['asserts']])


class AnswerCheck(HistCheck):
    """Every check-sat answer of a history is compared with R-truth on the R-stack conjunction."""
    report = ()  # which classes this property reports
    hist_kw = dict(unsat_bias=0.3, defines=0.05)

    def oracle(self, ctx, case, info, res):
        cmds = case['hist']['commands']
        snaps = hist.snapshots(cmds)
        nchecks = 0
        for i, c in enumerate(cmds):
            if c['k'] != 'check-sat' or info['outs'][i] is None:
                continue
            ans = answer_of(info['outs'][i])
            if ans is None:
                bump(res, 'no-answer')
                continue
            bump(res, 'answer:' + ans)
            if ans == 'unknown':
                continue
            nchecks += 1
            truth = truth_of_snapshot(self, ctx, case, snaps[i])
            if truth is None:
                bump(res, 'unresolved')
                continue
            if ans == 'unsat' and truth == 'sat' and 'unsat-but-sat' in self.report:
                res['violations'].append({'cls': 'unsat-but-sat', 'sig': self.signature(case, 'unsat-but-sat', info['outs'][i]),
                                          'detail': {'check_index': i, 'refs': ctx.refs.last_raw, 'asserts': [a['ref'] for a in snaps[i]['asserts']]}})
            if ans == 'sat' and truth == 'unsat' and 'sat-but-unsat' in self.report:
                res['violations'].append({'cls': 'sat-but-unsat', 'sig': self.signature(case, 'sat-but-unsat', info['outs'][i]),
                                          'detail': {'check_index': i, 'refs': ctx.refs.last_raw, 'asserts': [a['ref'] for a in snaps[i]['asserts']]}})
            want = 'unsat' if 'unsat-but-sat' in self.report else 'sat'
            if ans == want and len(snaps[i]['asserts']) >= 2 and (info['ticks'][i] or 0) > 1500:
                res['nontrivial'] = True
        res['key'] = self.case_key(case)
        if nchecks == 0:
            res['discarded'] = 'no-definitive-answer'

    def signature(self, case, cls, out=None):
        # cause attribution for known-finding matching: logic family, engine, whether huge constants occur, whether an assertion
        # level was ever pushed (a popped level leaves its activation variable in the SAT engine)
        text = ' '.join(c.get('text', '') for c in case['hist']['commands'])
        big = any(len(tok) >= 10 and tok.rstrip('.0').isdigit() for tok in text.replace('(', ' ').replace(')', ' ').split())
        return {'logic': case.get('logic') or case['hist']['logic'], 'engine': engine_of(case['options']), 'bigconst': big,
                'pushed': any(c['k'] == 'push' for c in case['hist']['commands']),
                # an uninterpreted function with a Boolean argument is applied somewhere in the history (OpenSMT keeps the formulas
                # that appear as arguments in a side list, "FIXME: Find a better way to deal with Bools in UF" in MainSolver::solve)
                'bool_arg_uf': any(('(%s ' % d['name']) in text for d in case['hist']['decls'] if d['k'] == 'declare-fun' and 'Bool' in d.get('args', []))}


def engine_of(options):
    names = [o[0] for o in options]
    if ':ghost-vars' in names:
        return 'ghost'
    if ':pure-lookahead' in names:
        return 'lookahead'
    if ':picky' in names:
        return 'picky'
    return 'default'


class C01(AnswerCheck):
    pid = 'C01'
    report = ('unsat-but-sat',)
    hist_kw = dict(unsat_bias=0.35, defines=0.05)
    monitors = {}
    rule = ('seeded histories over 17 logic profiles x configuration swarm x perturbed internal schedule; non-trivial = an unsat answer that '
            'needed search (> 1500 ticks) on a stack with >= 2 assertions and was resolved by both references; distinct = hash of (history, options, knobs, buggify plan)')


class C02(AnswerCheck):
    pid = 'C02'
    report = ('sat-but-unsat',)
    hist_kw = dict(unsat_bias=0.25, defines=0.05, big=0.3)
    rule = ('as C01 with generation biased to integer problems, difference logic with constants beyond 2^31/2^53/2^63, arrays and UF+arithmetic; '
            'non-trivial = a sat answer with > 1500 ticks on a stack with >= 2 assertions, resolved by both references')

    def pick_profile(self, rng):
        pool = ['QF_LIA', 'QF_LIA', 'QF_IDL', 'QF_IDL', 'QF_RDL', 'QF_UFLIA', 'QF_UFLIA', 'QF_UFIDL', 'QF_AX', 'QF_AX', 'QF_ALIA', 'QF_AUFLIA',
                'QF_AUFLIRA', 'ALL', 'QF_UFLRA', 'QF_UFRDL'] + gen.ALL_PROFILES
        return rng.choice(pool)


class C04(HistCheck):
    pid = 'C04'
    hist_kw = dict(unsat_bias=0.35, p_push=0.2, p_pop=0.18, p_check=0.25, ncmds=(12, 34), reassert=0.2, named=0.3, reenter=0.5,
                   queries=('get-model', 'get-unsat-core', 'get-value', 'get-interpolants'), q_prob=0.3, defines=0.05)
    allow_nonincremental = False
    rule = ('push/pop histories, every check-sat compared with a fresh interpreter (same configuration vector) given exactly the R-stack '
            'assertions; non-trivial = >= 1 pop before a compared check-sat and >= 2 definitive comparisons; distinct = hash of (history, config)')

    def finish_case(self, case, rng):
        h = case['hist']
        snaps = hist.snapshots(h['commands'])
        fresh = []
        pre = hist.prefix_len(h, case['options'])
        for i, c in enumerate(h['commands']):
            if c['k'] != 'check-sat':
                continue
            s = snaps[i]
            lines = ['(set-option %s %s)' % (k, v) for k, v in case['options']]
            lines.append('(set-logic %s)' % h['logic'])
            lines += [d['text'] for d in h['decls']]
            lines += [t for _, t in s['defs']]
            lines += ['(assert %s)' % a['ref'] for a in s['asserts']]
            lines.append('(check-sat)')
            fresh.append({'at': pre + i, 'commands': lines})
        case['fresh'] = fresh
        return case

    def oracle(self, ctx, case, info, res):
        h = case['hist']
        pre = hist.prefix_len(h, case['options'])
        fresh_ans = {}
        for e in info['resp']['log']:
            if e.get('ev') == 'fresh':
                a = answer_of(e['out'])
                if a:
                    fresh_ans[e['at']] = a
                if 'exception' in e:
                    fresh_ans[e['at']] = 'exception'
        compared = 0
        popped = False
        snaps = None
        for i, c in enumerate(h['commands']):
            if c['k'] == 'pop':
                popped = True
            if c['k'] != 'check-sat' or info['outs'][i] is None:
                continue
            a = answer_of(info['outs'][i])
            f = fresh_ans.get(pre + i)
            if a in ('sat', 'unsat') and f in ('sat', 'unsat'):
                compared += 1
                if popped and compared >= 2:
                    res['nontrivial'] = True
                if a != f:
                    if snaps is None:
                        snaps = hist.snapshots(h['commands'])
                    side = None
                    try:
                        side = ctx.refs.truth(self.prelude(case, snaps[i]), [x['ref'] for x in snaps[i]['asserts']])
                    except Exception:
                        pass
                    res['violations'].append({'cls': 'incremental-differs-from-fresh',
                                              'sig': {'incremental': a, 'fresh': f, 'truth': side, 'engine': engine_of(case['options']),
                                                      'pushed': any(x['k'] == 'push' for x in h['commands'][:i])},
                                              'detail': {'check_index': i, 'asserts': [x['ref'] for x in snaps[i]['asserts']]}})
            else:
                bump(res, 'not-compared')
        bump(res, 'compared', compared)
        res['key'] = self.case_key(case)
        if compared == 0:
            res['discarded'] = 'nothing-compared'

    def shrink_steps(self, case):
        for c in super().shrink_steps(case):
            c.pop('fresh', None)
            yield self.finish_case(c, None)


class C05(HistCheck):
    pid = 'C05'
    hist_kw = dict(unsat_bias=0.3, defines=0.05)
    K = 5
    rule = ('one history executed under K=5 configurations (engine, incremental, tracking, substitutions, restart/minimisation settings, buggify plans) '
            'and re-stated in more expressive logics; non-trivial = >= 3 configurations gave a definitive answer for some check-sat and >= 2 engines or '
            '>= 1 logic embedding among them; distinct = hash of (history, all configs)')

    def gen_case(self, seed, idx, tier):
        rng_p = sub_rng(seed, self.pid, idx, 'profile')
        prof = self.pick_profile(rng_p)
        configs = []
        incremental_all = True
        for k in range(self.K):
            opts, knobs, unusual, tags = cfg.gen_config(sub_rng(seed, self.pid, idx, 'config', k), perturb=(k > 0), allow_engines=(k > 0))
            logic = None
            emb = gen.EMBEDDINGS.get(gen.PROFILES[prof]['logic'])
            if emb and k > 0 and sub_rng(seed, self.pid, idx, 'emb', k).random() < 0.4:
                logic = sub_rng(seed, self.pid, idx, 'embpick', k).choice(emb)
            configs.append({'options': [list(o) for o in opts], 'knobs': knobs, 'unusual': unusual, 'tags': tags, 'logic': logic})
            incremental_all = incremental_all and tags['incremental']
        kw = dict(self.hist_kw)
        if not incremental_all:
            kw['max_push'] = 0
        h = hist.gen_history(sub_rng(seed, self.pid, idx, 'hist'), prof, **kw)
        return {'pid': self.pid, 'idx': idx, 'hist': h, 'configs': configs, 'options': configs[0]['options']}

    def sub_case(self, case, k):
        c = case['configs'][k]
        return {'pid': self.pid, 'idx': case.get('idx', 0), 'hist': case['hist'], 'options': c['options'], 'knobs': c['knobs'], 'unusual': c['unusual'], 'logic': c['logic']}

    def run_case(self, ctx, case):
        res = empty_result()
        answers = []
        hashes = []
        for k in range(len(case['configs'])):
            sub = self.sub_case(case, k)
            plan, resp = self.execute(ctx, sub)
            hashes.append(log_hash(resp))
            outs, prefix_out, exc, ticks = self.outputs(sub, resp)
            bump(res, 'runs')
            bump(res, 'sim-ticks', sim_ticks(resp))
            if death_of(resp) or exc:
                bump(res, 'died')
                answers.append(None)
                continue
            if any(o is not None and has_error(o) for o in prefix_out) or any(
                    o is not None and c['k'] in ('assert', 'declare-fun', 'define-fun', 'push', 'pop') and has_error(o) for c, o in zip(case['hist']['commands'], outs)):
                bump(res, 'config-rejected')
                answers.append(None)
                continue
            answers.append([answer_of(o) if (o is not None and c['k'] == 'check-sat') else None for c, o in zip(case['hist']['commands'], outs)])
        res['hash'] = stable_hash(hashes)
        res['key'] = stable_hash([[c['text'] for c in case['hist']['commands']], case['configs']])
        cmds = case['hist']['commands']
        for i, c in enumerate(cmds):
            if c['k'] != 'check-sat':
                continue
            col = [(k, a[i]) for k, a in enumerate(answers) if a is not None and a[i] in ('sat', 'unsat')]
            if len(col) >= 3:
                engines = {engine_of(case['configs'][k]['options']) for k, _ in col}
                embedded = any(case['configs'][k]['logic'] for k, _ in col)
                if len(engines) >= 2 or embedded:
                    res['nontrivial'] = True
            sat = [k for k, a in col if a == 'sat']
            uns = [k for k, a in col if a == 'unsat']
            if sat and uns:
                ks, ku = sat[0], uns[0]
                truth = None
                try:
                    snaps = hist.snapshots(cmds)
                    truth = ctx.refs.truth(self.prelude(case, snaps[i]), [x['ref'] for x in snaps[i]['asserts']])
                except Exception:
                    pass
                wrong = ks if truth == 'unsat' else ku if truth == 'sat' else None
                sig = {'truth': truth}
                if wrong is not None:
                    sig.update({'wrong_engine': engine_of(case['configs'][wrong]['options']), 'wrong_logic': case['configs'][wrong]['logic'] or case['hist']['logic'],
                                'pushed': any(x['k'] == 'push' for x in cmds[:i])})
                res['violations'].append({'cls': 'config-contradiction', 'sig': sig, 'detail': {'check_index': i, 'sat_config': ks, 'unsat_config': ku, 'pair': [ks, ku]}})
                break
        if all(a is None for a in answers):
            res['discarded'] = 'all-configs-failed'
        return res

    def shrink_steps(self, case):
        # 1. reduce to the contradicting pair if known, else drop configs one at a time
        if len(case['configs']) > 2:
            for k in range(len(case['configs'])):
                c = copy.deepcopy(case)
                del c['configs'][k]
                yield c
        # 2. per-config simplification
        for k, conf in enumerate(case['configs']):
            for site in list(conf['unusual']):
                c = copy.deepcopy(case)
                del c['configs'][k]['unusual'][site]
                yield c
            for kn in list(conf['knobs']):
                c = copy.deepcopy(case)
                del c['configs'][k]['knobs'][kn]
                yield c
            for i in range(len(conf['options'])):
                c = copy.deepcopy(case)
                del c['configs'][k]['options'][i]
                yield c
            if conf['logic']:
                c = copy.deepcopy(case)
                c['configs'][k]['logic'] = None
                yield c
        # 3. history
        base = {'hist': case['hist'], 'options': [], 'knobs': {}, 'unusual': {}}
        for c in HistCheck.shrink_steps(self, base):
            cc = copy.deepcopy(case)
            cc['hist'] = c['hist']
            yield cc


class C30(HistCheck):
    pid = 'C30'
    profiles = gen.NONINT_PROFILES
    hist_kw = dict(unsat_bias=0.3, ncmds=(6, 22), max_live=10, max_depth=3, big=0.1, p_push=0.15, p_pop=0.12)
    budget_ticks = 20000000
    rule = ('tiny histories in the non-integer logics x all engines x tracking options x push/pop x buggified schedules; every check-sat must return within '
            '2*10^7 logical ticks (tick hook watchdog) and 60 s CPU; non-trivial = non-default engine or tracking option and >= 1 pop; distinct = hash of (history, config)')

    def on_death(self, ctx, case, info, res):
        d = info['death']
        if d and d[0] in ('LIVENESS', 'CPU'):
            hang_at = sum(1 for o in info['outs'] if o is not None)
            # root-cause feature: was an assertion level pushed before the hanging check-sat?
            pushed = None
            cmds = case['hist']['commands']
            if hang_at < len(cmds):
                # (an assertion level that was pushed and popped again still leaves its activation variable behind)
                pushed = any(c['k'] == 'push' for c in cmds[:hang_at])
            # loop site: the function whose loop kept calling while the run went on past its tick budget (rt_core.cc, sampleStack)
            loop = d[1].get('loop') if isinstance(d[1], dict) else None
            res['violations'].append({'cls': 'liveness', 'sig': {'engine': engine_of(case['options']), 'kind': d[0], 'pushed': pushed, 'loop': loop},
                                      'detail': {'death': d[0], 'last_command_index': hang_at}})

    def oracle(self, ctx, case, info, res):
        mx = max([t for t in info['ticks'] if t is not None] or [0])
        bump(res, 'max-ticks-bucket:%d' % (len(str(mx))))
        res['key'] = self.case_key(case)
        tags = case.get('tags', {})
        has_pop = any(c['k'] == 'pop' for c in case['hist']['commands'])
        if has_pop and (tags.get('engine') != 'default' or tags.get('track')):
            res['nontrivial'] = True
        bump(res, 'engine:' + engine_of(case['options']))
