"""S-expression reader/printer for SMT-LIB text produced by OpenSMT (models, cores, interpolants, proofs).

Atoms are str; lists are Python lists. Quoted symbols keep their bars, string literals keep their quotes,
so that printing a parsed expression gives back equivalent text.
"""


class SexprError(Exception):
    pass


def tokenize(s):
    i, n = 0, len(s)
    while i < n:
        c = s[i]
        if c in ' \t\r\n':
            i += 1
        elif c == ';':
            while i < n and s[i] != '\n':
                i += 1
        elif c in '()':
            yield c
            i += 1
        elif c == '|':
            j = s.find('|', i + 1)
            if j < 0:
                raise SexprError('unterminated quoted symbol')
            yield s[i:j + 1]
            i = j + 1
        elif c == '"':
            j = i + 1
            while True:
                j = s.find('"', j)
                if j < 0:
                    raise SexprError('unterminated string')
                if j + 1 < n and s[j + 1] == '"':
                    j += 2
                    continue
                break
            yield s[i:j + 1]
            i = j + 1
        else:
            j = i
            while j < n and s[j] not in ' \t\r\n();|"':
                j += 1
            yield s[i:j]
            i = j


def parse_all(s):
    """Parse every top-level expression in s."""
    stack = [[]]
    for tok in tokenize(s):
        if tok == '(':
            stack.append([])
        elif tok == ')':
            if len(stack) == 1:
                raise SexprError('unbalanced )')
            top = stack.pop()
            stack[-1].append(top)
        else:
            stack[-1].append(tok)
    if len(stack) != 1:
        raise SexprError('unbalanced (')
    return stack[0]


def parse_one(s):
    r = parse_all(s)
    if len(r) != 1:
        raise SexprError('expected exactly one expression, got %d' % len(r))
    return r[0]


def to_str(e):
    if isinstance(e, str):
        return e
    return '(' + ' '.join(to_str(x) for x in e) + ')'


def atoms(e):
    """All atoms (leaf strings) of e, in order."""
    if isinstance(e, str):
        yield e
    else:
        for x in e:
            yield from atoms(x)


def structurally_ok(text):
    """Independent structural check used by C18: balanced parentheses, terminated strings / quoted symbols."""
    depth = 0
    i, n = 0, len(text)
    while i < n:
        c = text[i]
        if c == ';':
            while i < n and text[i] != '\n':
                i += 1
            continue
        if c == '|':
            j = text.find('|', i + 1)
            if j < 0:
                return False
            i = j + 1
            continue
        if c == '"':
            j = i + 1
            while True:
                j = text.find('"', j)
                if j < 0:
                    return False
                if j + 1 < n and text[j + 1] == '"':
                    j += 2
                    continue
                break
            i = j + 1
            continue
        if c == '(':
            depth += 1
        elif c == ')':
            depth -= 1
            if depth < 0:
                return False
        i += 1
    return depth == 0
