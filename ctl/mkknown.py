"""Maintenance tool (never run by a check): for every open known finding whose replay file is missing, search the
check's seeded cases for a matching violation, minimise it and write the replay file.
   python3-vt -m ctl.mkknown [id ...]"""
import json
import os
import sys

from . import main as M
from . import runner


def main():
    known = runner.load_known()
    reg = M.registry()
    want = set(sys.argv[1:])
    for k in known['open']:
        path = os.path.join(runner.VERIF, k['replay'])
        if want and k['id'] not in want:
            continue
        if os.path.exists(path) and not want:
            continue
        chk = reg[k['property']]()
        seed = 1000003 * int(k['property'][1:]) + 17
        ctx = runner.Ctx()
        found = None
        try:
            for idx in range(0, 6000):
                case = chk.gen_case(seed, idx, 'quick')
                res = chk.run_case(ctx, case)
                for v in res['violations']:
                    if runner.match_known({'open': [k]}, k['property'], v):
                        found = (idx, case, v)
                        break
                if found:
                    break
            if not found:
                print('NOT FOUND', k['id'])
                continue
            idx, case, v = found
            small, nruns = runner.shrink(chk, ctx, case, v['cls'], v.get('sig'), max_runs=300, max_s=120)
            fin = chk.run_case(ctx, small)
            vv = next((x for x in fin['violations'] if x['cls'] == v['cls']), v)
            if not runner.match_known({'open': [k]}, k['property'], vv):
                small, vv = case, v
        finally:
            ctx.close()
        ok, why = runner.gate(chk, small, vv['cls'], vv.get('sig'))
        print(k['id'], 'idx', idx, 'gate', ok, why)
        os.makedirs(os.path.dirname(path), exist_ok=True)
        json.dump({'property': k['property'], 'check': k['property'], 'cls': vv['cls'], 'sig': vv.get('sig'), 'detail': vv.get('detail'), 'seed': seed, 'idx': idx,
                   'known_id': k['id'], 'hash': fin.get('hash'), 'case': small}, open(path, 'w'), indent=1)


if __name__ == '__main__':
    main()
