"""./check selftest : two-sided self-tests of the oracles (hand-written must-pass and must-fail cases) and an end-to-end
smoke test of every engine. Exit 0 when everything behaves as expected, 2 otherwise."""
import json
import sys

from . import hist, oracles, runner, sexpr
from .refs import Refs, prelude_from_decls


def expect(name, cond, failures):
    if not cond:
        failures.append(name)
        print('SELFTEST FAIL:', name)


def main():
    fails = []
    refs = Refs()
    # ---- R-truth
    pre = '(declare-fun x () Int)\n(declare-fun y () Int)'
    expect('truth sat', refs.truth(pre, ['(< x y)']) == 'sat', fails)
    expect('truth unsat', refs.truth(pre, ['(< x y)', '(< y x)']) == 'unsat', fails)
    expect('truth real strict typing', refs.truth('(declare-fun r () Real)', ['(< r 1.0)']) == 'sat', fails)

    # ---- R-stack
    cmds = [{'k': 'assert', 'ref': 'p', 'names': [('a1', 'p', True, True)], 'text': ''}, {'k': 'push', 'n': 1},
            {'k': 'assert', 'ref': 'q', 'names': [], 'text': ''}, {'k': 'pop', 'n': 1}, {'k': 'pop', 'n': 3}, {'k': 'check-sat'}]
    snaps = hist.snapshots(cmds)
    expect('rstack pop restores', [a['ref'] for a in snaps[5]['asserts']] == ['p'], fails)
    expect('rstack pop beyond depth is a no-op', snaps[5]['depth'] == 0, fails)

    # ---- model oracle
    h = {'decls': [{'k': 'declare-fun', 'name': 'x', 'args': [], 'ret': 'Int', 'text': '(declare-fun x () Int)'}]}
    snap = {'asserts': [{'ref': '(> x 2)', 'name': None, 'idx': 0}], 'names': {}, 'defs': [], 'frames': [0], 'depth': 0}
    good = oracles.Model('(\n (define-fun x () Int\n 3)\n)', 'QF_LIA')
    bad = oracles.Model('(\n (define-fun x () Int\n 1)\n)', 'QF_LIA')
    expect('model ok', oracles.check_model(refs, h, snap, good, lambda *_: None) == [], fails)
    vb = oracles.check_model(refs, h, snap, bad, lambda *_: None)
    expect('model falsifies', vb and vb[0][0] == 'model-falsifies-assertion', fails)
    empty = oracles.Model('()', 'QF_LIA')
    vm = oracles.check_model(refs, h, snap, empty, lambda *_: None)
    expect('model missing symbol', vm and vm[0][0] == 'model-missing-symbol', fails)
    vv = oracles.check_values(refs, h, snap, good, 'QF_LIA', ['(+ x 1)'], '(((+ x 1) 4))', lambda *_: None)
    expect('value ok', vv == [], fails)
    vv = oracles.check_values(refs, h, snap, good, 'QF_LIA', ['(+ x 1)'], '(((+ x 1) 5))', lambda *_: None)
    expect('value differs', vv and vv[0][0] == 'value-differs-from-model', fails)

    # ---- core oracle
    snap2 = {'asserts': [{'ref': '(> x 2)', 'name': 'a', 'idx': 0}, {'ref': '(< x 1)', 'name': 'b', 'idx': 1}, {'ref': '(> x 0)', 'name': 'c', 'idx': 2}],
             'names': {}, 'defs': [], 'frames': [0], 'depth': 0}
    pre2 = prelude_from_decls(h['decls'])
    v, _ = oracles.check_core(refs, h, snap2, 'QF_LIA', '(a b)', False, True, lambda *_: None, pre2)
    expect('core ok', v == [], fails)
    v, _ = oracles.check_core(refs, h, snap2, 'QF_LIA', '(a c)', False, False, lambda *_: None, pre2)
    expect('core satisfiable', v and v[0][0] == 'core-satisfiable', fails)
    v, _ = oracles.check_core(refs, h, snap2, 'QF_LIA', '(a b c)', False, True, lambda *_: None, pre2)
    expect('core reducible', v and v[0][0] == 'core-reducible', fails)
    v, _ = oracles.check_core(refs, h, snap2, 'QF_LIA', '(a zz)', False, False, lambda *_: None, pre2)
    expect('core dead name', v and v[0][0] == 'core-name-not-live-assertion', fails)
    v, _ = oracles.check_core(refs, h, snap2, 'QF_LIA', '(a a b)', False, False, lambda *_: None, pre2)
    expect('core repeated', v and v[0][0] == 'core-name-repeated', fails)

    # ---- interpolant oracle
    cmd = {'k': 'get-interpolants', 'groups': [['a'], ['b']]}
    snap3 = {'asserts': snap2['asserts'][:2], 'names': {}, 'defs': [], 'frames': [0], 'depth': 0}
    syms = {0: {'x'}, 1: {'x'}}
    v, _ = oracles.check_interpolants(refs, h, snap3, 'QF_LIA', cmd, '((> x 1))', lambda *_: None, pre2, syms)
    expect('itp ok', v == [], fails)
    v, _ = oracles.check_interpolants(refs, h, snap3, 'QF_LIA', cmd, '((> x 5))', lambda *_: None, pre2, syms)
    expect('itp not implied', v and v[0][0] == 'itp-not-implied-by-A', fails)
    v, _ = oracles.check_interpolants(refs, h, snap3, 'QF_LIA', cmd, '(true)', lambda *_: None, pre2, syms)
    expect('itp consistent with B', v and v[0][0] == 'itp-consistent-with-B', fails)
    v, _ = oracles.check_interpolants(refs, h, snap3, 'QF_LIA', cmd, '(error "nope")', lambda *_: None, pre2, syms)
    expect('itp rejected', v and v[0][0] == 'itp-request-rejected', fails)

    # ---- R-res
    ok_proof = '(proof \n(let (cls_1 (or p q ))\n(let (cls_2 (not p) )\n(let (cls_3 (not q) )\n; q \n(let (cls_4 (res cls_1 cls_2 p))\n; -\n(let (cls_9 (res cls_4 cls_3 q))\ncls_9\n)))))\n:core\n( cls_1 )\n)'
    v, _ = oracles.check_proof_structure(oracles.Proof(ok_proof))
    expect('proof ok', v == [], fails)
    v, _ = oracles.check_proof_structure(oracles.Proof(ok_proof.replace('cls_9\n)))))', 'cls_0\n)))))')))
    expect('proof unbound final', v and v[0][0] == 'proof-unbound-reference', fails)
    v, _ = oracles.check_proof_structure(oracles.Proof(ok_proof.replace('(res cls_1 cls_2 p)', '(res cls_1 cls_2 r)')))
    expect('proof bad pivot', v and v[0][0] == 'proof-bad-pivot', fails)
    v, _ = oracles.check_proof_structure(oracles.Proof(ok_proof.replace('; q \n', '; p \n')))
    expect('proof wrong resolvent', v and v[0][0] == 'proof-wrong-resolvent', fails)
    v, _ = oracles.check_proof_structure(oracles.Proof(ok_proof.replace('(let (cls_9 (res cls_4 cls_3 q))\ncls_9', '(let (cls_9 (res cls_1 cls_2 p))\ncls_9').replace('; -\n', '; q \n')))
    expect('proof not empty', v and v[0][0] == 'proof-not-empty', fails)
    unit_or = oracles.Proof('(proof \n(let (cls_1 (or p q) )\n(let (cls_2 (not (or p q)) )\n; -\n(let (cls_9 (res cls_1 cls_2 (or p q)))\ncls_9\n)))\n)')
    v, _ = oracles.check_proof_structure(unit_or)
    expect('proof unit literal that is an or-term', v == [], fails)

    # ---- structural check used by C18
    expect('structural ok', sexpr.structurally_ok('(a (b "x)" |y(| ) ; c(\n)'), fails)
    expect('structural bad', not sexpr.structurally_ok('(a (b)'), fails)

    # ---- engines: smoke tests through osim
    ctx = runner.Ctx()
    try:
        o = ctx.osim('sim')
        r = o.run({'id': 1, 'engine': 'H', 'monitors': {'rup': True, 'farkas': True, 'tclauses': True, 'frames': True}, 'knobs': {}, 'unusual': {},
                   'commands': ['(set-logic QF_LRA)', '(declare-fun x () Real)', '(declare-fun y () Real)', '(assert (or (< x y) (< y x)))', '(assert (= x y))', '(check-sat)']})
        outs = [e for e in r['log'] if e.get('ev') == 'cmd']
        expect('engine H answer', outs and outs[-1]['out'].strip() == 'unsat', fails)
        r2 = o.run({'id': 2, 'engine': 'X', 'mode': 'pipe', 'script': '(set-logic QF_UF)\n(declare-fun p () Bool)\n(assert p)\n(check-sat)\n', 'chunks': [1] * 200, 'args': []})
        expect('engine X pipe', r2.get('stdout', '').strip() == 'sat', fails)
        r3 = o.run({'id': 3, 'engine': 'X', 'mode': 'pipe', 'script': '(set-logic QF_UF)\n(assert (and true', 'chunks': [7], 'args': []})
        expect('engine X truncated input is diagnosed', '(error' in r3.get('stdout', ''), fails)
        r4 = o.run({'id': 4, 'engine': 'T', 'logic': 'QF_LRA', 'options': [], 'knobs': {}, 'monitors': {}, 'unusual': {},
                    'commands': ['(declare-fun x () Real)', '(declare-fun y () Real)', '(assert (or (< x y) (< y 2.0) (> x 3.0)))'],
                    'ops': [['assert', 0, False], ['assert', 1, False], ['check', True]]})
        expect('engine T steps', any(e.get('ev') == 't-step' for e in r4['log']), fails)
        task = {'kind': 'solve', 'logic': 'QF_LRA', 'options': [], 'knobs': {}, 'commands': ['(declare-fun x () Real)', '(assert (< (* 12345678901234567890.0 x) 1.0))']}
        r5 = o.run({'id': 5, 'engine': 'M', 'build_in_thread': True, 'tasks': [task, task], 'schedule': [[0, 50], [1, 70], [0, 30], [1, 10]]})
        res = [e for e in r5['log'] if e.get('ev') == 'task']
        expect('engine M results', len(res) == 2 and all(e['result'] == 1 for e in res), fails)
        sw = next((e for e in r5['log'] if e.get('ev') == 'sched'), {})
        expect('engine M switches', sw.get('switches', 0) >= 4, fails)
        # determinism of the same plan
        r6 = o.run({'id': 5, 'engine': 'M', 'build_in_thread': True, 'tasks': [task, task], 'schedule': [[0, 50], [1, 70], [0, 30], [1, 10]]})
        expect('engine M deterministic', runner.log_hash(r5) == runner.log_hash(r6), fails)
    finally:
        ctx.close()
    print('selftest: %d failure(s)' % len(fails))
    return 2 if fails else 0
