"""C03 (models), C06/C07 (unsat cores), C08/C09 (interpolants), C10 (proofs), C19 (rejected commands), C21 (name scopes)."""
import copy
import re

from . import config as cfg
from . import gen, hist, oracles, sexpr
from .hbase import HistCheck, STATE_CMDS, answer_of, clean_lines, has_error
from .oracles import Unparsable
from .refs import RefError, prelude_from_decls, prelude_from_trace_decls
from .runner import bump, death_of, empty_result, log_hash, stable_hash, sub_rng, sim_ticks


def engine_name(options):
    names = [o[0] for o in options]
    if ':ghost-vars' in names:
        return 'ghost'
    if ':pure-lookahead' in names:
        return 'lookahead'
    if ':picky' in names:
        return 'picky'
    return 'default'


def opt_on(options, name):
    return any(o[0] == name and o[1] == 'true' for o in options)


def judge_history(check, ctx, case, cmds, outs, res, kinds, global_decls=False):
    """Walk a history with its outputs and apply the artefact oracles named in kinds.
    Returns list of dicts {cls, detail, index}. Counts what was judged in res['counters']."""
    h = case['hist']
    prof = h['profile']
    snaps = hist.snapshots(cmds, global_decls)
    out_v = []
    last_answer = None
    last_model = None
    assert_syms = {}
    k = 0
    for c in cmds:
        if c['k'] == 'assert' and not c.get('fault'):
            assert_syms[k] = set(c.get('syms', []))
            k += 1
    full = opt_on(case['options'], ':print-cores-full')
    minimal = opt_on(case['options'], ':minimal-unsat-cores')

    def b(name, n=1):
        bump(res, name, n)

    for i, c in enumerate(cmds):
        o = outs[i]
        if o is None:
            break
        kind = c['k']
        if c.get('fault'):
            continue
        if kind == 'check-sat':
            last_answer = answer_of(o)
            last_model = None
            continue
        if kind in ('assert', 'push', 'pop', 'define-fun'):
            last_answer = None
            last_model = None
            continue
        snap = snaps[i]
        try:
            if kind == 'get-model' and 'model' in kinds and last_answer == 'sat':
                if has_error(o):
                    out_v.append({'cls': 'model-missing-symbol', 'detail': {'error': o.strip()[:200]}, 'index': i})
                    continue
                m = oracles.Model(o, prof)
                last_model = m
                b('judged:model')
                vs = oracles.check_model(ctx.refs, h, snap, m, b)
                out_v += [{'cls': cls, 'detail': d, 'index': i} for cls, d in vs]
                if len(m.defs) >= 2 and any(x not in ('true', 'false') for _, t in m.defs for x in [t.rsplit(' ', 1)[-1].rstrip(')')]):
                    res['nontrivial'] = True
            elif kind == 'get-value' and 'value' in kinds and last_answer == 'sat' and last_model is not None:
                if has_error(o):
                    b('value-error-output')
                    continue
                b('judged:value')
                vs = oracles.check_values(ctx.refs, h, snap, last_model, prof, c['terms'], '\n'.join(clean_lines(o)), b)
                out_v += [{'cls': cls, 'detail': d, 'index': i} for cls, d in vs]
            elif kind == 'get-assignment' and 'assignment' in kinds and last_answer == 'sat' and opt_on(case['options'], ':produce-assignments'):
                if has_error(o):
                    b('assignment-error-output')
                    continue
                b('judged:assignment')
                vs = oracles.check_assignment(ctx.refs, h, snap, last_model, '\n'.join(clean_lines(o)), b)
                out_v += [{'cls': cls, 'detail': d, 'index': i} for cls, d in vs]
            elif kind == 'get-unsat-core' and 'core' in kinds and last_answer == 'unsat':
                if has_error(o):
                    b('core-error-output')
                    continue
                b('judged:core')
                vs, info = oracles.check_core(ctx.refs, h, snap, prof, '\n'.join(clean_lines(o)), full, minimal and 'mincore' in kinds, b, check.prelude(case, snap))
                out_v += [{'cls': cls, 'detail': d, 'index': i} for cls, d in vs]
                if info.get('size', 0) >= 2 and info.get('n_named', 0) > info.get('size', 0):
                    res['nontrivial'] = True
                    b('core-nontrivial')
            elif kind == 'get-interpolants' and 'itp' in kinds and last_answer == 'unsat':
                b('judged:itp')
                vs, info = oracles.check_interpolants(ctx.refs, h, snap, prof, c, o, b, check.prelude(case, snap), assert_syms)
                out_v += [{'cls': cls, 'detail': d, 'index': i} for cls, d in vs]
                itps = info.get('itps', [])
                if itps and any(t not in ('true', 'false') for t in itps):
                    if len(c['groups']) == 2 or len(set(itps)) >= 2:
                        res['nontrivial'] = True
                        b('itp-nontrivial')
                if info.get('skipped'):
                    b('itp-skipped:' + info['skipped'])
        except Unparsable as e:
            b('oracle-unparsable')
            res.setdefault('notes', []).append('unparsable %s: %s' % (kind, str(e)[:200]))
        except RefError as e:
            b('oracle-error')
            res.setdefault('notes', []).append(str(e)[:200])
    return out_v


def aliased_refs(check, ctx, case, upto=None):
    """Reference texts of the occurrences (assertions, named subterms) that have an equivalent *other* occurrence whose lifetime
    on the assertion stack overlapped with theirs, up to command index `upto`; plus the prelude used for the queries.
    OpenSMT identifies an assertion with its hash-consed term: such twins share names and partition indices (and popping one of
    them takes the partition and name information of the shared term with it). Occurrences with disjoint lifetimes do not
    count: a formula that was popped and is asserted again afterwards is alone on the stack, and the unchanged tree handles that."""
    h = case['hist']
    cmds = h['commands'] if upto is None else h['commands'][:upto + 1]
    levels = [[]]
    deflevels = [[]]
    pairs = []
    seen = set()
    defs_of = {}     # occurrence text -> definitions in scope when it was asserted

    def add(t):
        defs_of.setdefault(t, tuple(d for lv in deflevels for d in lv))
        for lv in levels:
            for u in lv:
                if (u, t) not in seen:
                    seen.add((u, t))
                    pairs.append((u, t))
        levels[-1].append(t)
    for c in cmds:
        if c.get('fault'):
            continue
        if c['k'] == 'define-fun':
            deflevels[-1].append((c['name'], c['text']))
        elif c['k'] == 'push':
            for _ in range(c['n']):
                levels.append([])
                deflevels.append([])
        elif c['k'] == 'pop':
            if c['n'] < len(levels):
                del levels[len(levels) - c['n']:]
                del deflevels[len(deflevels) - c['n']:]
        if c['k'] != 'assert':
            continue
        add(c['ref'])
        for (name, ref, is_bool, top) in c.get('names', []):
            if not top:
                add(ref)
    # definitions in scope at `upto` (for the caller's own queries)
    snap = hist.snapshots(h['commands'])[upto] if (upto is not None and upto < len(h['commands'])) else None
    prelude = prelude_from_decls(h['decls'], snap['defs'] if snap else [d for lv in deflevels for d in lv])

    def pair_prelude(u, t):
        # both occurrences are read with the definitions that were in scope when they were asserted; a name that was popped and
        # re-defined differently in between makes the pair incomparable
        ds = {}
        for (n, txt) in defs_of.get(u, ()) + defs_of.get(t, ()):
            if ds.setdefault(n, txt) != txt:
                return None
        return prelude_from_decls(h['decls'], list(ds.items()))
    out = set()
    for (u, t) in pairs:          # identical text: no query needed, no cap
        if u == t:
            out.update((u, t))
    declared = {d['name'] for d in h['decls'] if d['k'] == 'declare-fun'}

    def syms(x):
        return frozenset(w for w in x.replace('(', ' ').replace(')', ' ').split() if w in declared)
    sy = {}
    for (u, t) in pairs:
        for x in (u, t):
            if x not in sy:
                sy[x] = syms(x)
    # equivalent formulas usually mention the same symbols: those pairs are asked first (the budget matters in long histories);
    # a macro hides its symbols, so pairs with a macro on either side come right after
    def rank(p):
        if sy[p[0]] == sy[p[1]]:
            return 0
        if defs_of.get(p[0]) or defs_of.get(p[1]):
            return 1
        return 2 if (sy[p[0]] <= sy[p[1]] or sy[p[1]] <= sy[p[0]]) else 3
    pairs = sorted(pairs, key=rank)
    budget = 1500
    for (u, t) in pairs:
        if u == t or (u in out and t in out):
            continue
        budget -= 1
        if budget < 0:
            break
        pl = pair_prelude(u, t)
        if pl is None:
            continue
        try:
            if ctx.refs.truth(pl, ['(not (= %s %s))' % (u, t)]) == 'unsat':
                out.update((u, t))
        except RefError:
            continue
    return out, prelude


def alias_feature(check, ctx, case, upto=None):
    """True if two distinct occurrences that were on the assertion stack at the same time denote equivalent terms."""
    return bool(aliased_refs(check, ctx, case, upto)[0])


def alias_explains_core(check, ctx, case, v):
    """Cause attribution for core violations: True only if the twins can account for *this* violation - the assertion that is
    missing from the core (or the printed / removable element) is one of the aliased ones. A long history nearly always contains
    some pair of equivalent assertions; that alone must not file an unrelated defect under the term-identity finding."""
    i = v['index']
    al, prelude = aliased_refs(check, ctx, case, i)
    if not al:
        return False
    snap = hist.snapshots(case['hist']['commands'])[i]
    d = v['detail']
    cls = v['cls']
    live = snap['asserts']
    by_name = {a['name']: a['ref'] for a in live if a['name']}
    names = {n: e['ref'] for n, e in snap['names'].items()}
    try:
        if cls == 'core-satisfiable':
            core = [by_name[n] for n in d['core'] if n in by_name]
            unnamed = [a['ref'] for a in live if not a['name']]
            extra = [a['ref'] for a in live if a['ref'] in al]
            return bool(extra) and ctx.refs.truth(prelude, core + unnamed + extra) == 'unsat'
        if cls == 'fullcore-satisfiable':
            extra = [a['ref'] for a in live if a['ref'] in al]
            return bool(extra) and ctx.refs.truth(prelude, list(d['core']) + extra) == 'unsat'
        if cls == 'fullcore-not-an-assertion':
            return any(ctx.refs.truth(prelude, ['(not (= %s %s))' % (d['formula'], t)]) == 'unsat' for t in sorted(al))
        if cls in ('core-name-not-live-assertion', 'dead-name-printed'):
            ref = names.get(d['name']) or next((r for c in case['hist']['commands'][:i] if c['k'] == 'assert' for (n, r, _b, _t) in c.get('names', []) if n == d['name']), None)
            return ref in al
        if cls == 'core-reducible':
            if d.get('removable') not in by_name:
                return True     # full mode: element is a formula; keep the wide attribution
            if by_name[d['removable']] in al:
                return True
            # OpenSMT takes a term that carries any name (also the name of a nested subterm elsewhere) for a named assertion, so
            # an unnamed assertion with such a twin is missing from the background of the minimisation: would the element
            # still be removable against that smaller background?
            rest = [by_name[n] for n in d['core'] if n != d['removable'] and n in by_name]
            background = [a['ref'] for a in live if not a['name'] and a['ref'] not in al]
            return ctx.refs.truth(prelude, rest + background) != 'unsat'
    except (RefError, KeyError):
        return True
    return True


def group_simplifies(check, ctx, case, index):
    """True if a multi-name group of the get-interpolants request at `index` is a conjunction that the simplifying term
    constructor would change: a member equivalent to true / false, two equivalent or complementary members, or a member
    that is itself a conjunction. (Interpret::getInterpolants builds the group with mkAnd and then looks at the arguments
    of the result.)"""
    h = case['hist']
    cmds = h['commands']
    c = cmds[index]
    if c['k'] != 'get-interpolants':
        return False
    snap = hist.snapshots(cmds)[index]
    by_name = {a['name']: a['ref'] for a in snap['asserts'] if a['name']}
    prelude = check.prelude(case, snap)
    for g in c['groups']:
        if len(g) < 2:
            continue
        terms = [by_name[n] for n in g if n in by_name]
        for t in terms:
            if t.startswith('(and '):
                return True
            try:
                if ctx.refs.truth(prelude, [t]) == 'unsat' or ctx.refs.truth(prelude, ['(not %s)' % t]) == 'unsat':
                    return True
            except RefError:
                pass
        # the conjunction as a whole coincides with another occurrence (an assertion or a named subterm)
        members = set(g)
        others = [a['ref'] for a in snap['asserts'] if a['name'] not in members] + [d['ref'] for n, d in snap['names'].items() if d['is_bool'] and n not in members]
        conj = '(and %s)' % ' '.join(terms)
        for o in others:
            try:
                if ctx.refs.truth(prelude, ['(not (= %s %s))' % (conj, o)]) == 'unsat':
                    return True
            except RefError:
                pass
        for i in range(len(terms)):
            for j in range(i + 1, len(terms)):
                try:
                    if ctx.refs.truth(prelude, ['(not (= %s %s))' % (terms[i], terms[j])]) == 'unsat':
                        return True
                    if ctx.refs.truth(prelude, ['(not (= %s (not %s)))' % (terms[i], terms[j])]) == 'unsat':
                        return True
                except RefError:
                    pass
    return False


class ArtifactCheck(HistCheck):
    kinds = ()
    report = None  # None: every class the oracles produce

    def oracle(self, ctx, case, info, res):
        self._outs = info['outs']
        vs = judge_history(self, ctx, case, case['hist']['commands'], info['outs'], res, self.kinds)
        for v in vs:
            if self.report is None or v['cls'] in self.report:
                res['violations'].append({'cls': v['cls'], 'sig': self.signature(case, v, ctx), 'detail': dict(v['detail'], index=v['index'])})
        res['key'] = self.case_key(case)
        if not any(k.startswith('judged:') for k in res['counters']):
            res['discarded'] = 'nothing-judged'

    def signature(self, case, v, ctx=None):
        return {'logic': case['hist']['logic']}


def stale_arith_uf_arg(case, upto, any_live_occurrence=False):
    """Cause feature: some numeric variable is a direct argument of an uninterpreted function in a live assertion while its
    only arithmetic constraints (occurrences under + - * / comparisons) are in *popped* assertions. The LA solver then still
    knows the variable (solver variables are never removed) and gives it a value, but it is no longer treated as a variable
    shared between the two theories."""
    h = case['hist']
    numvars = {d['name'] for d in h['decls'] if d['k'] == 'declare-fun' and not d['args'] and d['ret'] in ('Int', 'Real')}
    ufs = {d['name'] for d in h['decls'] if d['k'] == 'declare-fun' and d['args']}
    ARITH = {'+', '-', '*', '/', '<', '<=', '>', '>=', 'div', 'mod'}

    def walk(e, out_arith, out_ufarg):
        if isinstance(e, str) or not e:
            return
        head = e[0] if isinstance(e[0], str) else None
        for x in e[1:]:
            if isinstance(x, str):
                if x in numvars:
                    if head in ufs:
                        out_ufarg.add(x)
                    elif head in ARITH:
                        out_arith.add(x)
            else:
                walk(x, out_arith, out_ufarg)
        if head is None:
            walk(e[0], out_arith, out_ufarg)
    levels = [[]]
    live_refs = [[]]
    popped_arith = set()
    for c in h['commands'][:upto + 1]:
        if c.get('fault'):
            continue
        if c['k'] == 'push':
            levels += [[] for _ in range(c['n'])]
            live_refs += [[] for _ in range(c['n'])]
        elif c['k'] == 'pop' and c['n'] < len(levels):
            for lv in levels[len(levels) - c['n']:]:
                for (ar, ua) in lv:
                    popped_arith |= ar
            del levels[len(levels) - c['n']:]
            del live_refs[len(live_refs) - c['n']:]
        elif c['k'] == 'assert':
            ar, ua = set(), set()
            try:
                walk(sexpr.parse_one(c['ref']), ar, ua)
            except sexpr.SexprError:
                pass
            levels[-1].append((ar, ua))
            live_refs[-1].append(c['ref'])
    live_arith = set().union(*[ar for lv in levels for (ar, ua) in lv]) if any(levels) else set()
    live_ufarg = set().union(*[ua for lv in levels for (ar, ua) in lv]) if any(levels) else set()
    if any_live_occurrence:
        # wider form: the stale LA variable occurs anywhere in a live assertion (argument of an uninterpreted function, or
        # compared by = / distinct with a term of an uninterpreted function) without any live arithmetic constraint
        live_any = set()
        for c in h['commands'][:upto + 1]:
            pass
        toks = set()
        for lv in live_refs:
            for t in lv:
                toks.update(t.replace('(', ' ').replace(')', ' ').split())
        return bool(((toks & numvars) & popped_arith) - live_arith)
    return bool((live_ufarg & popped_arith) - live_arith)


def popped_numeric_uf_app(case, upto):
    """Cause feature: an assertion of a popped level applied an uninterpreted function to numeric arguments. The application
    stays in the E-graph (terms are never removed) and in the function table of the model, but the sharing of its arguments
    between the E-graph and the LA solver is no longer maintained for it."""
    h = case['hist']
    num_ufs = {d['name'] for d in h['decls'] if d['k'] == 'declare-fun' and d['args'] and any(a in ('Int', 'Real') for a in d['args'])}
    if not num_ufs:
        return False
    levels = [[]]
    for c in h['commands'][:upto + 1]:
        if c.get('fault'):
            continue
        if c['k'] == 'push':
            levels += [[] for _ in range(c['n'])]
        elif c['k'] == 'pop' and c['n'] < len(levels):
            gone = [t for lv in levels[len(levels) - c['n']:] for t in lv]
            del levels[len(levels) - c['n']:]
            for t in gone:
                toks = t.replace('(', ' ( ').replace(')', ' ) ').split()
                if any(toks[j] == '(' and toks[j + 1] in num_ufs for j in range(len(toks) - 1)):
                    return True
        elif c['k'] == 'assert':
            levels[-1].append(c['ref'])
    return False


class C03(ArtifactCheck):
    pid = 'C03'
    profiles = gen.MODEL_PROFILES
    need = ('models',)
    kinds = ('model', 'value', 'assignment')
    hist_kw = dict(unsat_bias=0.08, named=0.35, nested_named=0.12, defines=0.08, p_check=0.25,
                   queries=(('get-model', 1.0), ('get-value', 0.8), ('get-assignment', 0.6)), clausal=0.2)
    rule = ('satisfiable-biased histories in the model-supporting logics; after each sat: get-model must define every declared symbol and satisfy every R-stack assertion '
            '(R-eval: printed define-funs + assertions sat for both references), get-value pairs must equal the value under that same printed model, get-assignment must list every '
            'live named Boolean term with its value under that model; non-trivial = model with >= 2 symbols and a non-Boolean value; distinct = hash of (history, config)')

    def gen_case(self, seed, idx, tier):
        case = super().gen_case(seed, idx, tier)
        return case

    def tune_hist_kw(self, kw, tags, rng):
        return kw

    def finish_case(self, case, rng):
        if rng is not None and rng.random() < 0.5 and not opt_on(case['options'], ':produce-assignments'):
            case['options'].append([':produce-assignments', 'true'])
        return case

    def signature(self, case, v, ctx=None):
        knobs = case.get('knobs', {})
        return {'logic': case['hist']['logic'], 'engine': engine_name(case['options']),
                'incremental': not any(o[0] == ':incremental' and o[1] == 'false' for o in case['options']),
                'skip_knobs': any(k in knobs for k in ('sat_initial_skip_step', 'sat_skip_step_factor')),
                'bool_arg_uf': any(d['k'] == 'declare-fun' and 'Bool' in d['args'] for d in case['hist']['decls']),
                # the printed model itself is malformed in a known way: an abstract value of sort Bool, (as @5 Bool), in the
                # table of an uninterpreted function with a Boolean argument
                'stale_arith_uf_arg': stale_arith_uf_arg(case, v['index']),
                'popped_numeric_uf_app': popped_numeric_uf_app(case, v['index']),
                'stale_la_var': stale_arith_uf_arg(case, v['index'], any_live_occurrence=True),
                'bool_abstract_value': any(o and re.search(r'\(as @\w+ Bool\)', o) for o in getattr(self, '_outs', []) or []),
                # an assertion level was pushed at some point (a popped level still leaves its activation variable in the SAT solver)
                'pushed': any(c['k'] == 'push' for c in case['hist']['commands'])}


class C06(ArtifactCheck):
    pid = 'C06'
    need = ('cores',)
    kinds = ('core',)
    report = ('core-name-repeated', 'core-name-not-live-assertion', 'core-satisfiable', 'fullcore-not-an-assertion', 'fullcore-satisfiable')
    hist_kw = dict(unsat_bias=0.45, named=0.65, nested_named=0.1, defines=0.04, queries=(('get-unsat-core', 1.0),), p_push=0.15, p_pop=0.13)
    allow_nonincremental = True
    rule = ('unsat-biased histories with mixed named / unnamed assertions, nested names, names popped and re-entered, :minimal-unsat-cores and :print-cores-full on/off; '
            'core has no repetition, only names of live top-level assertions (R-stack), core + unnamed assertions unsat for both references; full mode: every printed formula '
            'equivalent to a live assertion and the printed set unsat; non-trivial = core with >= 2 elements that omits >= 1 named assertion; distinct = hash of (history, config)')

    def signature(self, case, v, ctx=None):
        # a top-level named assertion containing a term-level ite is rewritten by the ITE handler before it is stored,
        # while its name stays attached to the term as written
        ite_macros = {c['name'] for c in case['hist']['commands'][:v['index']] if c['k'] == 'define-fun' and '(ite ' in c['text']}

        def has_ite(ref):
            return '(ite ' in ref or any(w in ite_macros for w in ref.replace('(', ' ').replace(')', ' ').split())
        named_ite = any(c['k'] == 'assert' and not c.get('fault') and has_ite(c['ref']) and any(n[3] for n in c.get('names', []))
                        for c in case['hist']['commands'][:v['index']])
        # difference logic with constants near the machine-word range: the fresh solver used by the minimisation overflows and
        # answers unknown, and an element whose removal could not be decided is kept
        text = ' '.join(c.get('ref', '') for c in case['hist']['commands'][:v['index']] if c['k'] == 'assert')
        big = any(len(tok) >= 16 and tok.isdigit() for tok in text.replace('(', ' ').replace(')', ' ').split())
        dl = case['hist']['logic'] in ('QF_IDL', 'QF_RDL', 'QF_UFIDL', 'QF_UFRDL')
        return {'full': opt_on(case['options'], ':print-cores-full'), 'minimal': opt_on(case['options'], ':minimal-unsat-cores'),
                'alias': alias_explains_core(self, ctx, case, v), 'named_ite': named_ite, 'dl_bigconst': bool(big and dl)}


class C07(C06):
    pid = 'C07'
    need = ('cores', 'mincores')
    kinds = ('core', 'mincore')
    report = ('core-reducible',)
    rule = ('as C06 with :minimal-unsat-cores: for every reported element e, (core minus e) + unnamed assertions must be satisfiable for both references (full mode: printed '
            'formulas minus one); non-trivial = minimal core with >= 2 elements that omits >= 1 named assertion; distinct = hash of (history, config)')


class C08(ArtifactCheck):
    pid = 'C08'
    profiles = gen.ITP_PROFILES
    need = ('interpolants',)
    kinds = ('itp',)
    report = ('itp-request-rejected', 'itp-not-implied-by-A', 'itp-consistent-with-B', 'itp-foreign-symbol')
    hist_kw = dict(unsat_bias=0.5, all_named=True, defines=0.0, queries=(('get-interpolants', 1.0),), itp_binary=0.85, p_push=0.14, p_pop=0.12, reassert=0.2, clausal=0.3,
                   nconsts=(4, 7))
    allow_nonincremental = False
    extra_options = staticmethod(cfg.itp_options)
    rule = ('unsat QF_UF / QF_LRA / QF_LIA histories with every assertion named, random A/B splits (names and (and ..) of names), all interpolation algorithms, strength factors, '
            'proof reduction under the simulated clock and PRNG, push/pop with re-asserted formulas; A => I and I & B unsat for both references, symbols of I shared; a request over live names must not be rejected; '
            'non-trivial = interpolant other than true/false; distinct = hash of (history, config)')

    def finish_case(self, case, rng):
        # proof reduction is time-bounded: make its clock the simulated one, with seeded jumps
        if rng is not None:
            case['clock'] = {'ns_per_tick': rng.choice([1, 100, 1000, 100000]), 'jumps': [[rng.randint(100, 200000), rng.choice([10 ** 6, 10 ** 9, 10 ** 10])] for _ in range(rng.randint(0, 2))]}
            case['rand_seed'] = rng.randint(1, 2 ** 31)
            # OpenSMT wants exactly one of {reduction time, number of graph traversals} when :proof-reduce is on
            reduce_on = any(o[0] == ':proof-reduce' and o[1] == 'true' for o in case['options'])
            if reduce_on and rng.random() < 0.4:
                case['knobs']['proof_red_time'] = rng.choice([0.001, 0.1, 1.0])
                case['options'] = [o for o in case['options'] if o[0] != ':proof-num-graph-traversals'] + [[':proof-num-graph-traversals', '0']]
        return case

    def signature(self, case, v, ctx=None):
        opt = {o[0]: o[1] for o in case['options']}
        # n-ary distinct among the live assertions (the EUF interpolator colours a distinction atom as a whole)
        snap = hist.snapshots(case['hist']['commands'])[v['index']]
        nary = False
        for a in (snap['asserts'] if snap else []):
            for m in re.finditer(r'\(distinct ', a['ref']):
                depth, k, n = 0, m.end(), 0
                while k < len(a['ref']):
                    ch = a['ref'][k]
                    if ch == '(':
                        if depth == 0:
                            n += 1
                        depth += 1
                    elif ch == ')':
                        if depth == 0:
                            break
                        depth -= 1
                    elif ch not in ' ' and depth == 0 and (a['ref'][k - 1] in ' '):
                        n += 1
                    k += 1
                if n >= 3:
                    nary = True
        return {'logic': case['hist']['logic'], 'after_pop': any(c['k'] == 'pop' for c in case['hist']['commands'][:v['index']]),
                'alias': alias_feature(self, ctx, case, v['index']), 'group_simplifies': group_simplifies(self, ctx, case, v['index']),
                'lra_alg': opt.get(':interpolation-lra-algorithm'), 'euf_alg': opt.get(':interpolation-euf-algorithm'), 'nary_distinct': nary}


class C09(C08):
    pid = 'C09'
    report = ('itp-request-rejected', 'itp-not-implied-by-A', 'itp-consistent-with-B', 'itp-foreign-symbol', 'path-step-fails')
    hist_kw = dict(C08.hist_kw, itp_binary=0.0)
    rule = ('as C08 with k >= 3 ordered groups: every I_j is a Craig interpolant for G_1..G_j versus the rest and I_j & G_{j+1} => I_{j+1} (both references); '
            'non-trivial = k >= 3 and >= 2 distinct interpolants; distinct = hash of (history, config)')


class C10(HistCheck):
    pid = 'C10'
    need = ('proofs',)
    monitors = {'frames': True}
    profiles = [p for p in gen.ALL_PROFILES if not oracles.mixed(p)]
    hist_kw = dict(unsat_bias=0.5, defines=0.03, queries=(('get-proof', 1.0),), p_push=0.15, p_pop=0.13, reassert=0.15, clausal=0.4)
    allow_nonincremental = True
    MAX_LEAVES = 25
    rule = ('unsat histories with :produce-proofs, get-proof after every unsat (also after pop, on re-entered levels, when unsat is found in preprocessing), perturbed GC / reduceDB / restart schedule; '
            'R-res: every reference bound, every res step has the pivot with opposite signs and yields the stated resolvent, final clause empty, every leaf implied (both references) by the traced '
            'roots of the live frames plus the guards of exactly the live frames; non-trivial = >= 2 resolution steps and a derived binding; distinct = hash of (history, config)')

    def oracle(self, ctx, case, info, res):
        resp = info['resp']
        h = case['hist']
        prof = h['profile']
        pre = hist.prefix_len(h, case['options'])
        cmds = h['commands']
        snaps = hist.snapshots(cmds)
        main_ms = next((e['id'] for e in resp['log'] if e.get('ev') == 'ms' and e.get('role') == 'main'), None)
        main_ctx = next((e['ctx'] for e in resp['log'] if e.get('ev') == 'ms' and e.get('role') == 'main'), None)
        decls = [e for e in resp['log'] if e.get('ev') == 'decl' and e.get('ctx') == main_ctx]
        user_names = {d['name'] for d in h['decls'] if d['k'] == 'declare-fun'}
        roots = []
        last_answer = None
        judged = 0
        for e in resp['log']:
            if e.get('ev') == 'frame' and e.get('ms') == main_ms and e.get('k') == 'root' and not e.get('toolarge'):
                roots.append((e['frame'], e['t']))
            if e.get('ev') != 'cmd' or e['i'] < pre:
                continue
            i = e['i'] - pre
            if i >= len(cmds):
                continue
            c = cmds[i]
            if c['k'] == 'check-sat':
                last_answer = answer_of(e['out'])
                continue
            if c['k'] in ('assert', 'push', 'pop', 'define-fun'):
                last_answer = None
                continue
            if c['k'] != 'get-proof' or last_answer != 'unsat':
                continue
            out = e['out']
            if has_error(out):
                bump(res, 'proof-error-output')
                continue
            judged += 1
            bump(res, 'judged:proof')
            try:
                proof = oracles.Proof(out)
                vs, table = oracles.check_proof_structure(proof)
            except Unparsable as err:
                res['violations'].append({'cls': 'proof-unparsable', 'sig': {}, 'detail': {'error': str(err)[:200], 'index': i}})
                break
            nres = sum(str(x).count("'res'") for x in proof.derived.values())
            if nres >= 2:
                res['nontrivial'] = True
            if vs:
                cls, d = vs[0]
                res['violations'].append({'cls': cls, 'sig': self.sig_of(cls, d, cmds, i), 'detail': dict(d, index=i)})
                break
            # leaves
            snap = snaps[i]
            live = set(snap['frames'])
            G = [t for (fid, t) in roots if fid in live]
            frames_seen = set()
            for name, cl in proof.leaves.items():
                for (a, _) in cl:
                    if a.startswith('.frame'):
                        frames_seen.add(a)
            aux = [d for d in decls if d['name'] not in user_names]
            lines = [prelude_from_decls(h['decls'], snap['defs'])]
            if aux:
                tr = prelude_from_trace_decls(aux)
                lines += [ln for ln in tr.split('\n') if not ln.startswith('(declare-sort')]
            declared_aux = {d['name'] for d in aux}
            for f in sorted(frames_seen):
                if ('aux' + f) not in declared_aux:
                    lines.append('(declare-fun |aux%s| () Bool)' % f)
            for fid in sorted(live):
                if fid > 0 and ('.frame%d' % fid) not in frames_seen and ('aux.frame%d' % fid) not in declared_aux:
                    lines.append('(declare-fun |aux.frame%d| () Bool)' % fid)
            prelude = '\n'.join(lines)
            guards = ['(not |aux.frame%d|)' % fid for fid in sorted(live) if fid > 0]
            leaf_names = sorted(proof.leaves, key=lambda n: stable_hash([n, sorted(map(str, proof.leaves[n]))]))
            dead = None
            for name in leaf_names:
                for (a, _) in proof.leaves[name]:
                    if a.startswith('.frame') and a[6:].isdigit() and int(a[6:]) not in live:
                        dead = (name, a)
            if dead:
                res['violations'].append({'cls': 'proof-dead-frame', 'sig': self.sig_of('proof-dead-frame', {}, cmds, i), 'detail': {'leaf': dead[0], 'frame': dead[1], 'live': sorted(live), 'index': i}})
                break
            stop = False
            for name in leaf_names[:self.MAX_LEAVES]:
                cl = proof.leaves[name]
                try:
                    neg = ['(not %s)' % oracles.lit_text(l, prof) for l in cl]
                    t = ctx.refs.truth(prelude, G + guards + neg)
                except (Unparsable, RefError) as err:
                    bump(res, 'oracle-error')
                    res.setdefault('notes', []).append(str(err)[:200])
                    continue
                bump(res, 'leaves-checked')
                if t is None:
                    bump(res, 'unresolved')
                elif t == 'sat':
                    res['violations'].append({'cls': 'proof-leaf-not-implied', 'sig': self.sig_of('proof-leaf-not-implied', {}, cmds, i),
                                              'detail': {'leaf': name, 'clause': sorted(map(str, cl)), 'index': i, 'live': sorted(live)}})
                    stop = True
                    break
            if stop:
                break
        res['key'] = self.case_key(case)
        if judged == 0:
            res['discarded'] = 'nothing-judged'

    def sig_of(self, cls, d, cmds, i):
        return {'after_pop': any(c['k'] == 'pop' for c in cmds[:i])}


# ------------------------------------------------------------------------------------------- C19
FAULT_KINDS = ['ill-sorted-assert', 'unknown-symbol', 'non-bool-assert', 'duplicate-name', 'failing-assert-with-name', 'define-sort-mismatch', 'define-duplicate',
               'define-failing-body-with-name', 'declare-unknown-sort', 'duplicate-declare-sort', 'pop-too-many', 'get-value-not-sat', 'get-model-not-sat',
               'get-core-wrong-mode', 'get-proof-wrong-mode', 'get-itp-bad-args', 'second-set-logic', 'unknown-command', 'push-nonincremental']


def make_fault(rng, kind, hcase, pos, fid):
    """Text of a command designed to be rejected when inserted before command index pos of the history."""
    h = hcase['hist']
    decls = [d for d in h['decls'] if d['k'] == 'declare-fun']
    bools = [d['name'] for d in decls if d['ret'] == 'Bool' and not d['args']]
    nonbools = [d['name'] for d in decls if d['ret'] != 'Bool' and not d['args']]
    rs = hist.RStack()
    for c in h['commands'][:pos]:
        rs.apply(c)
    depth = rs.depth()
    live_names = sorted(rs.live_names())
    live_defs = [n for n, _ in rs.live_defs()]
    b = rng.choice(bools) if bools else 'true'
    fresh = 'zz%d' % fid
    if kind == 'ill-sorted-assert':
        if not nonbools:
            return None
        return '(assert (and %s %s))' % (b, rng.choice(nonbools))
    if kind == 'unknown-symbol':
        return '(assert (or %s undeclared_%d))' % (b, fid)
    if kind == 'non-bool-assert':
        if not nonbools:
            return None
        return '(assert %s)' % rng.choice(nonbools)
    if kind == 'duplicate-name':
        if not live_names:
            return None
        return '(assert (! %s :named %s))' % (b, rng.choice(live_names))
    if kind == 'failing-assert-with-name':
        if not nonbools:
            return None
        return '(assert (and (! %s :named %s) (= %s %s)))' % (b, fresh, rng.choice(nonbools), b)
    if kind == 'define-sort-mismatch':
        if not nonbools:
            return None
        return '(define-fun %s () Bool %s)' % (fresh, rng.choice(nonbools))
    if kind == 'define-duplicate':
        if not live_defs:
            return None
        return '(define-fun %s () Bool true)' % rng.choice(live_defs)
    if kind == 'define-failing-body-with-name':
        return '(define-fun %s () Bool (and (! %s :named %sn) undeclared_%d))' % (fresh, b, fresh, fid)
    if kind == 'declare-unknown-sort':
        return '(declare-fun %s () NoSuchSort)' % fresh
    if kind == 'duplicate-declare-sort':
        sorts = [d['name'] for d in h['decls'] if d['k'] == 'declare-sort']
        if not sorts:
            return None
        return '(declare-sort %s 0)' % sorts[0]
    if kind == 'pop-too-many':
        return '(pop %d)' % (depth + rng.randint(1, 3))
    if kind == 'get-value-not-sat':
        return None  # decided by the state; covered by the ordinary wrong-state queries of the history
    if kind == 'get-model-not-sat':
        return None
    if kind == 'get-core-wrong-mode':
        return '(get-unsat-core)' if not opt_on(hcase['options'], ':produce-unsat-cores') else None
    if kind == 'get-proof-wrong-mode':
        return '(get-proof)' if not opt_on(hcase['options'], ':produce-proofs') else None
    if kind == 'get-itp-bad-args':
        if not opt_on(hcase['options'], ':produce-interpolants'):
            return '(get-interpolants %s %s)' % (b, b)
        return '(get-interpolants nosuchname_%d %s)' % (fid, b)
    if kind == 'second-set-logic':
        return '(set-logic QF_UF)'
    if kind == 'unknown-command':
        return '(get-assertions)'
    if kind == 'push-nonincremental':
        return None
    return None


class C19(HistCheck):
    pid = 'C19'
    hist_kw = dict(unsat_bias=0.3, named=0.4, nested_named=0.05, defines=0.15, p_push=0.17, p_pop=0.14,
                   queries=(('get-model', 0.5), ('get-value', 0.4), ('get-unsat-core', 0.5), ('get-interpolants', 0.4), ('get-assignment', 0.3)), clausal=0.15)
    allow_nonincremental = False
    profiles = [p for p in gen.ALL_PROFILES if not gen.PROFILES[p]['arrays']]
    rule = ('a valid history H and H\' = H with 1-4 commands designed to be rejected (19 kinds) inserted at seeded positions, biased to land after push/pop/named asserts and before queries; '
            'outputs of H\' minus the injected responses are compared with H: same check-sat answers, same success/error status of every command, and models / values / cores / interpolants of H\' '
            'correct for H\'s R-stack; non-trivial = injected command was rejected and followed by >= 1 check-sat or query; distinct = hash of (H, faults, config)')

    def gen_case(self, seed, idx, tier):
        # tracking options so that the queries of the history are meaningful
        rng = sub_rng(seed, self.pid, idx, 'need')
        need = ['models']
        if rng.random() < 0.6:
            need.append('cores')
        if rng.random() < 0.4:
            need.append('interpolants')
        if rng.random() < 0.3:
            need.append('assignments')
        self.need = tuple(need)
        case = HistCheck.gen_case(self, seed, idx, tier)
        self.need = ()
        if 'interpolants' in need and case['hist']['profile'] not in gen.ITP_PROFILES:
            case['options'] = [o for o in case['options'] if o[0] != ':produce-interpolants']
        r = sub_rng(seed, self.pid, idx, 'faults')
        cmds = case['hist']['commands']
        n = r.randint(1, 4)
        faults = []
        # scenario faults: a rejected re-definition / re-naming of something introduced at an outer level, placed inside a
        # pushed level that is popped later while the original is still used afterwards
        scen = self.scoped_scenarios(cmds)
        if scen and r.random() < 0.5:
            pos, kind, name = r.choice(scen)
            if kind == 'define-duplicate':
                faults.append({'pos': pos, 'kind': kind, 'text': '(define-fun %s () Bool true)' % name})
            else:
                decl_bools = [d['name'] for d in case['hist']['decls'] if d['k'] == 'declare-fun' and d['ret'] == 'Bool' and not d['args']]
                faults.append({'pos': pos, 'kind': kind, 'text': '(assert (! %s :named %s))' % (decl_bools[0] if decl_bools else 'true', name)})
        for fid in range(n):
            # bias positions: right after push / pop / named assert, right before queries
            cand = [i + 1 for i, c in enumerate(cmds) if c['k'] in ('push', 'pop') or (c['k'] == 'assert' and c.get('names'))]
            cand += [i for i, c in enumerate(cmds) if c['k'].startswith('get-') or c['k'] == 'check-sat']
            pos = r.choice(cand) if cand and r.random() < 0.7 else r.randint(0, len(cmds))
            kind = r.choice(FAULT_KINDS)
            text = make_fault(r, kind, case, pos, fid)
            if text is None:
                continue
            faults.append({'pos': pos, 'kind': kind, 'text': text})
        faults.sort(key=lambda f: f['pos'])
        case['faults'] = faults
        return case

    @staticmethod
    def scoped_scenarios(cmds):
        """(position, fault kind, name) triples: position lies inside a pushed level deeper than the level that introduced
        `name` (a define-fun or a :named label), that deeper level is popped later, and `name` is referenced after the pop."""
        out = []
        intro = {}   # name -> (kind, depth)
        depth = 0
        levels = [[]]
        # per command index: depth before it
        depths = []
        for c in cmds:
            depths.append(depth)
            if c['k'] == 'push':
                depth += c['n']
            elif c['k'] == 'pop':
                depth = max(0, depth - c['n'])
        depth = 0
        live = {}
        for i, c in enumerate(cmds):
            if c['k'] == 'push':
                depth += c['n']
            elif c['k'] == 'pop':
                depth = max(0, depth - c['n'])
                live = {n: v for n, v in live.items() if v[1] <= depth}
            elif c['k'] == 'define-fun':
                live[c['name']] = ('define-duplicate', depth)
            elif c['k'] == 'assert':
                for nm in c.get('names', []):
                    live[nm[0]] = ('duplicate-name', depth)
            if depth == 0:
                continue
            # position i+1 is inside depth; look for a later pop below `depth` and a later reference to an outer name
            for name, (kind, d0) in live.items():
                if d0 >= depth:
                    continue
                dd = depth
                popped_at = None
                for j in range(i + 1, len(cmds)):
                    if cmds[j]['k'] == 'push':
                        dd += cmds[j]['n']
                    elif cmds[j]['k'] == 'pop':
                        dd = max(0, dd - cmds[j]['n'])
                        if dd < depth and dd >= d0 and popped_at is None:
                            popped_at = j
                        if dd < d0:
                            break
                    elif popped_at is not None:
                        toks = cmds[j].get('text', '').replace('(', ' ').replace(')', ' ').split()
                        if (kind == 'define-duplicate' and name in toks) or (kind == 'duplicate-name' and cmds[j]['k'] in ('get-unsat-core', 'get-assignment', 'get-interpolants')):
                            out.append((i + 1, kind, name))
                            break
        return out

    def faulty_commands(self, case):
        cmds = list(case['hist']['commands'])
        out = []
        fi = 0
        faults = case['faults']
        for i in range(len(cmds) + 1):
            while fi < len(faults) and faults[fi]['pos'] == i:
                out.append({'k': 'fault', 'fault': faults[fi]['kind'], 'text': faults[fi]['text']})
                fi += 1
            if i < len(cmds):
                out.append(cmds[i])
        return out

    def run_case(self, ctx, case):
        res = empty_result()
        if not case['faults']:
            res['discarded'] = 'no-fault-generated'
            return res
        base = {k: v for k, v in case.items() if k != 'faults'}
        plan0, resp0 = self.execute(ctx, base)
        outs0, pre0, exc0, _ = self.outputs(base, resp0)
        fc = copy.deepcopy(base)
        fc['hist'] = dict(base['hist'], commands=self.faulty_commands(case))
        plan1, resp1 = self.execute(ctx, fc)
        outs1, pre1, exc1, _ = self.outputs(fc, resp1)
        res['hash'] = stable_hash([log_hash(resp0), log_hash(resp1)])
        res['key'] = stable_hash([[c['text'] for c in fc['hist']['commands']], case['options'], case.get('knobs')])
        bump(res, 'runs', 2)
        bump(res, 'sim-ticks', sim_ticks(resp0) + sim_ticks(resp1))
        d0, d1 = death_of(resp0), death_of(resp1)
        if d0 or exc0:
            res['discarded'] = 'base-history-died'
            res['hash'] = 'base-died'
            return res
        if any(o is not None and has_error(o) for o in pre0) or any(o is not None and c['k'] in STATE_CMDS and has_error(o) for c, o in zip(base['hist']['commands'], outs0)):
            res['discarded'] = 'generated-command-rejected'
            return res
        if d1 or exc1:
            # the run with the rejected commands died although the run without them did not
            res['violations'].append({'cls': 'state-changed-by-rejected-command', 'sig': {'faults': sorted({f['kind'] for f in case['faults']}), 'name_in_rejected': any(f['kind'].endswith('with-name') for f in case['faults']), 'diverge': 'died'},
                                      'detail': {'death': str(d1 or exc1)[:200]}})
            return res
        # injected commands must have been rejected
        fcmds = fc['hist']['commands']
        rejected_all = True
        for c, o in zip(fcmds, outs1):
            if c.get('fault'):
                bump(res, 'F-reject:' + c['fault'])
                if o is None or not has_error(o):
                    rejected_all = False
                    bump(res, 'not-rejected:' + c['fault'])
        if not rejected_all:
            res['discarded'] = 'injected-command-not-rejected'
            return res
        # align outputs of H' with H
        aligned = [o for c, o in zip(fcmds, outs1) if not c.get('fault')]
        cmds = base['hist']['commands']
        first_fault = min(f['pos'] for f in case['faults'])
        if any(c['k'] == 'check-sat' or c['k'].startswith('get-') for c in cmds[first_fault:]):
            res['nontrivial'] = True
        kinds = sorted({f['kind'] for f in case['faults']})
        for i, (c, o0, o1) in enumerate(zip(cmds, outs0, aligned)):
            if o0 is None or o1 is None:
                break
            if c['k'] == 'check-sat':
                a0, a1 = answer_of(o0), answer_of(o1)
                if a0 != a1 and 'unknown' not in (a0, a1):
                    res['violations'].append({'cls': 'state-changed-by-rejected-command', 'sig': {'faults': kinds, 'name_in_rejected': any(k.endswith('with-name') for k in kinds), 'diverge': 'check-sat'},
                                              'detail': {'index': i, 'without': a0, 'with': a1}})
                    return res
            elif has_error(o0) != has_error(o1):
                res['violations'].append({'cls': 'state-changed-by-rejected-command', 'sig': {'faults': kinds, 'name_in_rejected': any(k.endswith('with-name') for k in kinds), 'diverge': c['k']},
                                          'detail': {'index': i, 'without': o0.strip()[:200], 'with': o1.strip()[:200]}})
                return res
        # semantic correctness of the artefacts of H' with respect to H's R-stack
        try:
            vs = judge_history(self, ctx, base, cmds, aligned, res, ('model', 'value', 'assignment', 'core', 'itp'))
            # the same artefact oracles on H itself: a defect that does not depend on the rejected command is not C19's
            res0 = empty_result()
            vs0 = judge_history(self, ctx, base, cmds, outs0, res0, ('model', 'value', 'assignment', 'core', 'itp'))
        except RefError:
            bump(res, 'oracle-error')
            return res
        base_classes = {(v['cls'], v['index']) for v in vs0}
        for v in vs:
            if (v['cls'], v['index']) in base_classes:
                bump(res, 'artefact-defect-also-without-fault')
                continue
            res['violations'].append({'cls': 'state-changed-by-rejected-command', 'sig': {'faults': kinds, 'name_in_rejected': any(k.endswith('with-name') for k in kinds), 'diverge': v['cls']}, 'detail': dict(v['detail'], index=v['index'])})
            break
        return res

    def shrink_steps(self, case):
        for i in range(len(case['faults'])):
            c = copy.deepcopy(case)
            del c['faults'][i]
            if c['faults']:
                yield c
        for c in HistCheck.shrink_steps(self, {k: v for k, v in case.items()}):
            # dropping commands shifts fault positions: recompute conservatively by keeping faults at min(pos, len)
            n = len(c['hist']['commands'])
            old = case['hist']['commands']
            new = c['hist']['commands']
            if len(new) != len(old):
                # find the removed slice
                j = 0
                while j < len(new) and new[j] is not None and new[j]['text'] == old[j]['text']:
                    j += 1
                removed = len(old) - len(new)
                c['faults'] = [dict(f, pos=(f['pos'] if f['pos'] <= j else max(j, f['pos'] - removed))) for f in case['faults']]
            yield c


# ------------------------------------------------------------------------------------------- C21
class C21(HistCheck):
    pid = 'C21'
    hist_kw = dict(unsat_bias=0.35, named=0.6, nested_named=0.15, defines=0.15, p_push=0.2, p_pop=0.18, ncmds=(10, 30),
                   queries=(('get-unsat-core', 0.5), ('get-assignment', 0.5), ('get-interpolants', 0.3)), clausal=0.1)
    allow_nonincremental = False
    profiles = [p for p in gen.ALL_PROFILES if not gen.PROFILES[p]['arrays']]
    rule = ('push/pop histories dense in :named (top-level and nested) and define-fun, with probes inserted after pops: use of a popped macro (must be rejected), re-definition of a popped macro and '
            're-introduction of a popped name (must succeed), interpolation request over a popped name (must be rejected); names printed by get-unsat-core / get-assignment must be live in R-stack; '
            'with :global-declarations the expectations flip (names and macros persist); non-trivial = a name or definition crossed a pop and was probed; distinct = hash of (history, config)')

    def gen_case(self, seed, idx, tier):
        rng = sub_rng(seed, self.pid, idx, 'need')
        need = []
        if rng.random() < 0.6:
            need.append('cores')
        if rng.random() < 0.5:
            need.append('assignments')
        if rng.random() < 0.3:
            need.append('interpolants')
        self.need = tuple(need)
        case = HistCheck.gen_case(self, seed, idx, tier)
        self.need = ()
        if case['hist']['profile'] not in gen.ITP_PROFILES:
            case['options'] = [o for o in case['options'] if o[0] != ':produce-interpolants']
        gd = rng.random() < 0.25
        case['global_decls'] = gd
        if gd:
            case['options'].append([':global-declarations', 'true'])
        # insert probes after pops
        r = sub_rng(seed, self.pid, idx, 'probes')
        cmds = case['hist']['commands']
        decl_bools = [d['name'] for d in case['hist']['decls'] if d['k'] == 'declare-fun' and d['ret'] == 'Bool' and not d['args']]
        bvar = decl_bools[0] if decl_bools else 'true'
        out = []
        rs = hist.RStack(gd)
        pid_ = 0
        for c in cmds:
            before_names = dict(rs.live_names())
            before_defs = dict(rs.live_defs())
            out.append(c)
            rs.apply(c)
            if c['k'] != 'pop':
                continue
            gone_names = sorted(set(before_names) - set(rs.live_names()))
            gone_defs = sorted(set(before_defs) - {n for n, _ in rs.live_defs()})
            kept_names = sorted(set(before_names)) if gd else []
            kept_defs = sorted(before_defs) if gd else []
            for _ in range(r.randint(0, 2)):
                pid_ += 1
                choices = []
                if gone_defs:
                    choices += ['use-popped-macro', 'redefine-popped-macro']
                if gone_names:
                    choices += ['reintroduce-popped-name', 'reintroduce-popped-name']
                    if opt_on(case['options'], ':produce-interpolants'):
                        choices += ['itp-with-popped-name']
                if kept_names:
                    choices += ['reintroduce-global-name']
                if kept_defs:
                    choices += ['redefine-global-macro']
                if not choices:
                    break
                k = r.choice(choices)
                if k == 'use-popped-macro':
                    nm = r.choice(gone_defs)
                    # arity unknown here: a nullary use is ill-formed for n-ary macros too, and rejected either way
                    probe = {'k': 'assert', 'probe': k, 'expect': 'error', 'fault': k, 'text': '(assert (= %s %s))' % (nm, nm)}
                elif k == 'redefine-popped-macro':
                    nm = r.choice(gone_defs)
                    gone_defs.remove(nm)
                    probe = {'k': 'define-fun', 'probe': k, 'expect': 'ok', 'name': nm, 'text': '(define-fun %s () Bool %s)' % (nm, bvar), 'params': [], 'ret': 'Bool'}
                elif k == 'reintroduce-popped-name':
                    nm = r.choice(gone_names)
                    gone_names.remove(nm)
                    probe = {'k': 'assert', 'probe': k, 'expect': 'ok', 'text': '(assert (! (or %s (not %s)) :named %s))' % (bvar, bvar, nm),
                             'ref': '(or %s (not %s))' % (bvar, bvar), 'names': [(nm, '(or %s (not %s))' % (bvar, bvar), True, True)], 'syms': [bvar]}
                elif k == 'itp-with-popped-name':
                    nm = r.choice(gone_names)
                    probe = {'k': 'get-interpolants', 'probe': k, 'expect': 'error', 'fault': k, 'groups': [[nm], [nm]], 'text': '(get-interpolants %s %s)' % (nm, nm)}
                elif k == 'reintroduce-global-name':
                    nm = r.choice(kept_names)
                    probe = {'k': 'assert', 'probe': k, 'expect': 'error', 'fault': k, 'text': '(assert (! (or %s (not %s)) :named %s))' % (bvar, bvar, nm)}
                else:
                    nm = r.choice(kept_defs)
                    probe = {'k': 'define-fun', 'probe': k, 'expect': 'error', 'fault': k, 'name': nm, 'text': '(define-fun %s () Bool %s)' % (nm, bvar)}
                out.append(probe)
                rs.apply(probe)
        case['hist']['commands'] = out
        return case

    def run_case(self, ctx, case):
        res = empty_result()
        plan, resp = self.execute(ctx, case)
        res['hash'] = log_hash(resp)
        outs, prefix_out, exc, ticks = self.outputs(case, resp)
        death = death_of(resp)
        bump(res, 'runs')
        bump(res, 'sim-ticks', sim_ticks(resp))
        if death and death[0] == 'harness':
            raise RuntimeError('harness error: %r' % (death[1],))
        if death or exc:
            res['discarded'] = 'died'
            return res
        if any(o is not None and has_error(o) for o in prefix_out):
            res['discarded'] = 'option-or-declaration-rejected'
            return res
        cmds = case['hist']['commands']
        gd = case.get('global_decls', False)
        for c, o in zip(cmds, outs):
            if o is not None and c['k'] in STATE_CMDS and not c.get('probe') and not c.get('fault') and has_error(o):
                res['discarded'] = 'generated-command-rejected:' + c['k']
                return res
        res['key'] = self.case_key(case)
        snaps = hist.snapshots(cmds, gd)
        last_answer = None
        for i, (c, o) in enumerate(zip(cmds, outs)):
            if o is None:
                break
            if c.get('probe'):
                res['nontrivial'] = True
                bump(res, 'probe:' + c['probe'])
                err = has_error(o)
                if c['expect'] == 'ok' and err:
                    cls = 'popped-name-not-reusable'
                    res['violations'].append({'cls': cls, 'sig': {'probe': c['probe'], 'global': gd}, 'detail': {'index': i, 'command': c['text'], 'output': o.strip()[:200]}})
                    return res
                if c['expect'] == 'error' and not err:
                    if c['k'] == 'get-interpolants' and last_answer != 'unsat':
                        continue
                    cls = 'global-name-lost' if gd else 'popped-name-still-visible'
                    res['violations'].append({'cls': cls, 'sig': {'probe': c['probe'], 'global': gd}, 'detail': {'index': i, 'command': c['text'], 'output': o.strip()[:200]}})
                    return res
                if c['k'] in ('assert', 'define-fun'):
                    last_answer = None
                continue
            if c['k'] == 'check-sat':
                last_answer = answer_of(o)
            elif c['k'] in ('assert', 'push', 'pop', 'define-fun'):
                last_answer = None
            elif c['k'] == 'get-unsat-core' and last_answer == 'unsat' and not has_error(o) and not opt_on(case['options'], ':print-cores-full'):
                try:
                    e = sexpr.parse_one('\n'.join(clean_lines(o)))
                except sexpr.SexprError:
                    continue
                live = {a['name'] for a in snaps[i]['asserts'] if a['name']}
                bump(res, 'judged:core-names')
                for n in e if isinstance(e, list) else []:
                    if isinstance(n, str) and n not in live:
                        # with :global-declarations names persist across pops (C21 says so): a persisting name that denotes the
                        # formula of a current assertion (same formula asserted again, under a new name or unnamed) is not a popped
                        # name showing up, so C21 does not forbid it
                        other = snaps[i]['names'].get(n)
                        if gd and other:
                            same = any(a['ref'] == other['ref'] for a in snaps[i]['asserts'])
                            if not same:
                                pl = self.prelude(case, snaps[i])
                                for a in snaps[i]['asserts']:
                                    try:
                                        if ctx.refs.truth(pl, ['(not (= %s %s))' % (a['ref'], other['ref'])]) == 'unsat':
                                            same = True      # equivalent formulas are one hash-consed term after simplification
                                            break
                                    except RefError:
                                        continue
                            if same:
                                bump(res, 'global-persisting-name-in-core')
                                continue
                        res['violations'].append({'cls': 'dead-name-printed', 'sig': {'where': 'get-unsat-core', 'global': gd, 'alias': alias_explains_core(self, ctx, case, {'index': i, 'cls': 'dead-name-printed', 'detail': {'name': n}})},
                                                  'detail': {'index': i, 'name': n, 'live': sorted(live)}})
                        return res
            elif c['k'] == 'get-assignment' and last_answer == 'sat' and not has_error(o):
                try:
                    e = sexpr.parse_one('\n'.join(clean_lines(o)))
                except sexpr.SexprError:
                    continue
                live = set(snaps[i]['names'])
                bump(res, 'judged:assignment-names')
                for p in e if isinstance(e, list) else []:
                    if isinstance(p, list) and p and isinstance(p[0], str) and p[0] not in live:
                        res['violations'].append({'cls': 'dead-name-printed', 'sig': {'where': 'get-assignment', 'global': gd, 'alias': alias_explains_core(self, ctx, case, {'index': i, 'cls': 'dead-name-printed', 'detail': {'name': p[0]}})}, 'detail': {'index': i, 'name': p[0], 'live': sorted(live)}})
                        return res
            elif c['k'] == 'get-interpolants' and last_answer == 'unsat' and opt_on(case['options'], ':produce-interpolants'):
                live = {a['name'] for a in snaps[i]['asserts'] if a['name']}
                if all(n in live for g in c['groups'] for n in g) and has_error(o):
                    bump(res, 'itp-over-live-names-rejected')
        return res


CHECKS = [C03, C06, C07, C08, C09, C10, C19, C21]
