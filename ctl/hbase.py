"""Engine-H checks: common machinery (plan building, output parsing, crash classification, generic shrinking)."""
import copy
import os
import json

from . import config as cfg
from . import gen, hist
from .refs import RefError, prelude_from_decls
from .runner import Check, sim_ticks, bump, death_of, empty_result, log_hash, stable_hash, sub_rng

STATE_CMDS = ('set-option', 'set-logic', 'declare-sort', 'declare-fun', 'define-fun', 'assert', 'push', 'pop')


def clean_lines(out):
    """Output lines of a command without comment lines (the lookahead engines print '; ...' on stdout)."""
    return [l for l in out.split('\n') if l.strip() and not l.lstrip().startswith(';')]


def answer_of(out):
    for l in clean_lines(out):
        if l in ('sat', 'unsat', 'unknown'):
            return l
    return None


def has_error(out):
    return any(l.startswith('(error') for l in clean_lines(out))


class HistCheck(Check):
    profiles = gen.ALL_PROFILES
    hist_kw = {}
    need = ()
    forbid = ()
    monitors = {}
    allow_engines = True
    allow_nonincremental = True
    perturb = True
    budget_ticks = 20000000
    extra_options = None  # callable(rng) -> [(name, value)]

    # ------------------------------------------------------------------ generation
    def pick_profile(self, rng):
        return rng.choice(self.profiles)

    def gen_case(self, seed, idx, tier):
        rng_p = sub_rng(seed, self.pid, idx, 'profile')
        prof = self.pick_profile(rng_p)
        if os.environ.get('VERIF_PROFILES'):   # maintenance: focus a run on some logics (never set by a registered command)
            prof = rng_p.choice(os.environ['VERIF_PROFILES'].split(','))
        opts, knobs, unusual, tags = cfg.gen_config(sub_rng(seed, self.pid, idx, 'config'), need=self.need, forbid=self.forbid,
                                                    allow_engines=self.allow_engines, allow_nonincremental=self.allow_nonincremental,
                                                    perturb=self.perturb)
        if self.extra_options:
            opts = opts + self.extra_options(sub_rng(seed, self.pid, idx, 'extra'))
        kw = dict(self.hist_kw)
        if not tags['incremental']:
            kw['max_push'] = 0
        kw = self.tune_hist_kw(kw, tags, sub_rng(seed, self.pid, idx, 'tune'))
        h = hist.gen_history(sub_rng(seed, self.pid, idx, 'hist'), prof, **kw)
        case = {'pid': self.pid, 'idx': idx, 'hist': h, 'options': [list(o) for o in opts], 'knobs': knobs, 'unusual': unusual, 'tags': tags}
        return self.finish_case(case, sub_rng(seed, self.pid, idx, 'finish'))

    def tune_hist_kw(self, kw, tags, rng):
        return kw

    def finish_case(self, case, rng):
        return case

    # ------------------------------------------------------------------ execution
    def build_plan(self, case):
        h = case['hist']
        plan = {'id': case.get('idx', 0), 'engine': 'H', 'budget_ticks': self.budget_ticks,
                'monitors': dict(self.monitors), 'knobs': case.get('knobs', {}), 'unusual': case.get('unusual', {}),
                'commands': hist.script_lines(h, case['options'], case.get('logic')), 'cpu_s': 60, 'wall_s': 120}
        for k in ('clock', 'rand_seed', 'fresh'):
            if k in case:
                plan[k] = case[k]
        return plan

    def execute(self, ctx, case):
        plan = self.build_plan(case)
        resp = ctx.osim('sim').run(plan)
        return plan, resp

    def outputs(self, case, resp):
        """Per history-command output (aligned with case['hist']['commands']); None where the run did not get that far."""
        pre = hist.prefix_len(case['hist'], case['options'])
        outs = {}
        exc = None
        for e in resp.get('log', []):
            if e.get('ev') == 'cmd':
                outs[e['i']] = e
                if 'exception' in e:
                    exc = (e['i'], e['exception'])
        n = len(case['hist']['commands'])
        res = [outs[pre + i]['out'] if (pre + i) in outs else None for i in range(n)]
        prefix_out = [outs[i]['out'] if i in outs else None for i in range(pre)]
        ticks = [outs[pre + i]['ticks'] if (pre + i) in outs else None for i in range(n)]
        return res, prefix_out, exc, ticks

    def run_case(self, ctx, case):
        res = empty_result()
        plan, resp = self.execute(ctx, case)
        res['hash'] = log_hash(resp)
        outs, prefix_out, exc, ticks = self.outputs(case, resp)
        death = death_of(resp)
        if death and death[0] == 'harness':
            raise RuntimeError('harness error from osim: %r' % (death[1],))
        info = {'resp': resp, 'outs': outs, 'prefix_out': prefix_out, 'exception': exc, 'death': death, 'ticks': ticks, 'plan': plan}
        bump(res, 'runs')
        bump(res, 'sim-ticks', sim_ticks(resp))
        if death or exc:
            if death and death[0] in ('SIGNAL', 'SANITIZER', 'CPU', 'WALL'):
                # where exactly a memory error strikes may depend on the address-space layout of the server process:
                # "the same execution" then means "died the same way"
                res['hash'] = 'died:' + death[0]
            bump(res, 'died:' + (death[0] if death else 'EXCEPTION'))
            self.on_death(ctx, case, info, res)
            if res['discarded'] is None and not res['violations']:
                res['discarded'] = 'died:' + (death[0] if death else 'EXCEPTION')
            return res
        # a generated (non-fault) state-changing command that OpenSMT rejects: discard, never judge
        if any(o is not None and has_error(o) for o in prefix_out):
            res['discarded'] = 'option-or-declaration-rejected'
            return res
        for c, o in zip(case['hist']['commands'], outs):
            if o is not None and c['k'] in STATE_CMDS and not c.get('fault') and has_error(o):
                res['discarded'] = 'generated-command-rejected:' + c['k']
                bump(res, 'rejected:' + c['k'])
                return self.on_rejected(ctx, case, info, res)
        for e in resp.get('log', []):
            if e.get('ev') == 'monitors':
                for k in ('rup_checked', 'rup_nontrivial', 'tclauses_logged', 'la_conflicts', 'la_nontrivial'):
                    if e.get(k):
                        bump(res, 'mon:' + k, e[k])
                for site, d in e.get('unusual', {}).items():
                    if d.get('taken'):
                        bump(res, 'F-unusual-fired:' + site, d['taken'])
                for kk, n in e.get('kinds', {}).items():
                    bump(res, 'clauses:' + kk, n)
        if case.get('knobs'):
            bump(res, 'F-knob-runs')
        try:
            self.oracle(ctx, case, info, res)
        except RefError as e:
            bump(res, 'oracle-error')
            res['discarded'] = 'oracle-error'
            res.setdefault('notes', []).append(str(e)[:300])
        return res

    def on_death(self, ctx, case, info, res):
        pass

    def on_rejected(self, ctx, case, info, res):
        return res

    def oracle(self, ctx, case, info, res):
        raise NotImplementedError

    # ------------------------------------------------------------------ helpers for oracles
    def prelude(self, case, snap):
        return prelude_from_decls(case['hist']['decls'], snap['defs'])

    def case_key(self, case):
        return stable_hash([case['hist']['commands'] and [c['text'] for c in case['hist']['commands']], case['options'], case.get('knobs'), case.get('unusual'), case.get('logic')])

    # ------------------------------------------------------------------ shrinking
    NEED_OPTION = {'models': ':produce-models', 'assignments': ':produce-assignments', 'cores': ':produce-unsat-cores',
                   'mincores': ':minimal-unsat-cores', 'fullcores': ':print-cores-full', 'interpolants': ':produce-interpolants',
                   'proofs': ':produce-proofs'}
    keep_options = ()

    def shrink_steps(self, case):
        # 1. buggify decisions
        for site in list(case.get('unusual', {})):
            c = copy.deepcopy(case)
            del c['unusual'][site]
            yield c
        # 2. knobs
        for k in list(case.get('knobs', {})):
            c = copy.deepcopy(case)
            del c['knobs'][k]
            yield c
        # 3. options (not the tracking options an oracle depends on)
        for i, (name, _) in enumerate(case['options']):
            if name in [self.NEED_OPTION[n] for n in self.need] or name in self.keep_options:
                continue
            c = copy.deepcopy(case)
            del c['options'][i]
            yield c
        # 4. commands: chunks from the end, then single commands
        cmds = case['hist']['commands']
        n = len(cmds)
        size = n // 2
        while size >= 1:
            for start in range(n - size, -1, -size):
                c = copy.deepcopy(case)
                del c['hist']['commands'][start:start + size]
                if self.valid_after_drop(c):
                    yield c
            size //= 2
        # 5. unused declarations
        used = set()
        for c0 in cmds:
            used.update(c0.get('syms', []))
            used.update(c0.get('text', '').replace('(', ' ').replace(')', ' ').split())
        for i, d in enumerate(case['hist']['decls']):
            if d['k'] == 'declare-fun' and d['name'] not in used:
                c = copy.deepcopy(case)
                del c['hist']['decls'][i]
                yield c
        # 6. simplify Boolean structure of assertions: replace (and a b ..)/(or a b ..) at the top by one child
        from . import sexpr
        for i, c0 in enumerate(cmds):
            if c0['k'] != 'assert' or c0.get('names'):
                continue
            try:
                e = sexpr.parse_one(c0['ref'])
            except sexpr.SexprError:
                continue
            if isinstance(e, list) and e and e[0] in ('and', 'or', '=>', 'not') and len(e) >= 2:
                for child in e[1:]:
                    c = copy.deepcopy(case)
                    t = sexpr.to_str(child)
                    c['hist']['commands'][i].update({'text': '(assert %s)' % t, 'ref': t})
                    yield c

    def valid_after_drop(self, case):
        """Keep push/pop balanced enough: a pop deeper than the stack would turn a valid history into a faulty one."""
        depth = 0
        defined = set()
        names = []
        live = [set()]
        for c in case['hist']['commands']:
            if c.get('fault'):
                continue
            if c['k'] == 'push':
                depth += c['n']
                live += [set() for _ in range(c['n'])]
            elif c['k'] == 'pop':
                if c['n'] > depth:
                    return False
                depth -= c['n']
                for _ in range(c['n']):
                    live.pop()
            elif c['k'] == 'define-fun':
                live[-1].add(c['name'])
            elif c['k'] == 'assert':
                for nm in c.get('names', []):
                    live[-1].add(nm[0])
            # references to macros / names that are no longer introduced
            toks = set(c.get('text', '').replace('(', ' ').replace(')', ' ').split())
            all_live = set().union(*live)
            for t in toks:
                if (t[:1] == 'm' and t[1:].isdigit()) and t not in all_live and c['k'] != 'define-fun':
                    return False
            if c['k'] == 'get-interpolants':
                for g in c['groups']:
                    for nm in g:
                        if nm not in all_live:
                            return False
        return True
