"""Artefact oracles shared by C03, C06-C10, C19, C21: R-eval (models / values / assignments), unsat cores,
interpolants, R-res (printed resolution proofs). All of them work on OpenSMT's printed output, which is translated
for the reference solvers: numerals in Real-only logics get a decimal point (cvc5 has no Int/Real subtyping), abstract
values (as @k U) become pairwise distinct fresh constants, reserved names (.ite3, .frame2) get an "aux" prefix."""
import re

from . import gen, sexpr
from .refs import RefError, prelude_from_decls, quote

NUM_RE = re.compile(r'^[0-9]+$')


class Unparsable(Exception):
    pass


def real_only(prof):
    return gen.PROFILES[prof]['nums'] == ['Real']


def mixed(prof):
    return len(gen.PROFILES[prof]['nums']) > 1


def translate(e, prof, avals=None):
    """OpenSMT-printed s-expression -> reference s-expression (see module docstring)."""
    if isinstance(e, str):
        if NUM_RE.match(e) and real_only(prof):
            return e + '.0'
        if e[:1] in '.@' and len(e) > 1:
            return '|aux%s|' % e
        return e
    if len(e) == 3 and e[0] == 'as' and isinstance(e[1], str) and e[1].startswith('@') and isinstance(e[2], str):
        name = '%s!av!%s' % (e[2], e[1][1:])
        if avals is not None:
            avals.setdefault(e[2], set()).add(name)
        return '|%s|' % name
    return [translate(x, prof, avals) for x in e]


def to_ref_text(text, prof, avals=None):
    try:
        e = sexpr.parse_one(text)
    except sexpr.SexprError as err:
        raise Unparsable(str(err))
    return sexpr.to_str(translate(e, prof, avals))


# ------------------------------------------------------------------------------------------- models (R-eval)
class Model:
    def __init__(self, out, prof):
        """out: stdout of (get-model)."""
        self.avals = {}
        self.defs = []  # (name, define-fun text)
        try:
            e = sexpr.parse_one(out)
        except sexpr.SexprError as err:
            raise Unparsable('model: %s' % err)
        if not isinstance(e, list):
            raise Unparsable('model is not a list')
        for d in e:
            if not (isinstance(d, list) and len(d) == 5 and d[0] == 'define-fun' and isinstance(d[1], str)):
                raise Unparsable('model entry: %s' % sexpr.to_str(d)[:80])
            name = d[1]
            body = translate(d[4], prof, self.avals)
            self.defs.append((name.strip('|'), '(define-fun %s %s %s %s)' % (name, sexpr.to_str(d[2]), sexpr.to_str(d[3]), sexpr.to_str(body))))

    def names(self):
        return {n for n, _ in self.defs}

    def prelude(self, hist, snap):
        lines = [d['text'] for d in hist['decls'] if d['k'] == 'declare-sort']
        for sort, names in sorted(self.avals.items()):
            names = sorted(names)
            for n in names:
                lines.append('(declare-fun |%s| () %s)' % (n, sort))
            if len(names) > 1:
                lines.append('(assert (distinct %s))' % ' '.join('|%s|' % n for n in names))
        lines += [t for _, t in self.defs]
        lines += [t for _, t in snap['defs']]
        return '\n'.join(lines)


def check_model(refs, hist, snap, model, res_bump):
    """(i) defines every declared symbol, (ii) satisfies every live assertion. Returns list of (cls, detail)."""
    v = []
    declared = {d['name'] for d in hist['decls'] if d['k'] == 'declare-fun'}
    missing = sorted(declared - model.names())
    if missing:
        v.append(('model-missing-symbol', {'missing': missing}))
        return v
    pre = model.prelude(hist, snap)
    t = refs.truth(pre, [a['ref'] for a in snap['asserts']])
    if t is None:
        res_bump('unresolved')
    elif t == 'unsat':
        # find one falsified assertion for the report
        bad = None
        for a in snap['asserts']:
            if refs.truth(pre, [a['ref']]) == 'unsat':
                bad = a['ref']
                break
        v.append(('model-falsifies-assertion', {'assertion': bad, 'model': [t for _, t in model.defs]}))
    return v


def check_values(refs, hist, snap, model, prof, terms, out, res_bump):
    v = []
    try:
        e = sexpr.parse_one(out)
    except sexpr.SexprError as err:
        raise Unparsable('get-value: %s' % err)
    if not isinstance(e, list) or any(not (isinstance(p, list) and len(p) == 2) for p in e):
        raise Unparsable('get-value shape')
    if len(e) != len(terms):
        v.append(('value-missing', {'requested': len(terms), 'returned': len(e)}))
        return v
    avals = dict((k, set(s)) for k, s in model.avals.items())
    for term, pair in zip(terms, e):
        val = sexpr.to_str(translate(pair[1], prof, avals))
        # abstract values not in the model would be unconstrained constants: declare them through a copy of the model
        m2 = model
        if any(avals.get(k, set()) - model.avals.get(k, set()) for k in avals):
            import copy
            m2 = copy.copy(model)
            m2.avals = avals
        t = refs.truth(m2.prelude(hist, snap), ['(not (= %s %s))' % (term, val)])
        if t is None:
            res_bump('unresolved')
        elif t == 'sat':
            v.append(('value-differs-from-model', {'term': term, 'value': val}))
            break
    return v


def check_assignment(refs, hist, snap, model, out, res_bump):
    v = []
    try:
        e = sexpr.parse_one(out)
    except sexpr.SexprError as err:
        raise Unparsable('get-assignment: %s' % err)
    if not isinstance(e, list):
        raise Unparsable('get-assignment shape')
    got = {}
    for p in e:
        if not (isinstance(p, list) and len(p) == 2 and isinstance(p[0], str) and isinstance(p[1], str)):
            raise Unparsable('get-assignment entry')
        if p[0] in got:
            v.append(('assignment-differs-from-model', {'name': p[0], 'why': 'listed twice'}))
            return v
        got[p[0]] = p[1]
    live_bool = {n: d for n, d in snap['names'].items() if d['is_bool']}
    for n, d in sorted(live_bool.items()):
        if n not in got:
            v.append(('assignment-differs-from-model', {'name': n, 'why': 'missing'}))
            return v
        if got[n] not in ('true', 'false'):
            v.append(('assignment-not-boolean', {'name': n, 'value': got[n]}))
            return v
        if model is not None:
            t = refs.truth(model.prelude(hist, snap), ['(not (= %s %s))' % (d['ref'], got[n])])
            if t is None:
                res_bump('unresolved')
            elif t == 'sat':
                v.append(('assignment-differs-from-model', {'name': n, 'term': d['ref'], 'value': got[n]}))
                return v
    for n in got:
        if n not in snap['names']:
            v.append(('dead-name-printed', {'name': n, 'where': 'get-assignment'}))
            return v
    return v


# ------------------------------------------------------------------------------------------- unsat cores
def check_core(refs, hist, snap, prof, out, full, minimal, res_bump, prelude):
    """Returns (violations, info). info: size, n_named"""
    v = []
    try:
        e = sexpr.parse_one(out)
    except sexpr.SexprError as err:
        raise Unparsable('core: %s' % err)
    if not isinstance(e, list):
        raise Unparsable('core shape')
    info = {'size': len(e)}
    asserts = snap['asserts']
    if not full:
        if any(not isinstance(x, str) for x in e):
            raise Unparsable('core entry is not a name')
        if len(set(e)) != len(e):
            v.append(('core-name-repeated', {'core': e}))
            return v, info
        by_name = {a['name']: a for a in asserts if a['name']}
        for n in e:
            if n not in by_name:
                cls = 'core-name-not-live-assertion'
                v.append((cls, {'name': n, 'live': sorted(by_name), 'known_name': n in snap['names']}))
                return v, info
        unnamed = [a['ref'] for a in asserts if not a['name']]
        core = [by_name[n]['ref'] for n in e]
        info['n_named'] = len(by_name)
        t = refs.truth(prelude, core + unnamed)
        if t is None:
            res_bump('unresolved')
        elif t == 'sat':
            v.append(('core-satisfiable', {'core': e}))
            return v, info
        if minimal and t == 'unsat':
            for i, n in enumerate(e):
                rest = core[:i] + core[i + 1:]
                t2 = refs.truth(prelude, rest + unnamed)
                if t2 is None:
                    res_bump('unresolved')
                elif t2 == 'unsat':
                    v.append(('core-reducible', {'core': e, 'removable': n}))
                    break
    else:
        if mixed(prof):
            res_bump('skipped-mixed-logic')
            return v, info
        forms = [sexpr.to_str(translate(x, prof)) for x in e]
        info['n_named'] = len(asserts)
        # every printed formula is (equivalent to) a current assertion
        for f in forms:
            ok = False
            unresolved = False
            for a in asserts:
                t = refs.truth(prelude, ['(not (= %s %s))' % (f, a['ref'])])
                if t == 'unsat':
                    ok = True
                    break
                if t is None:
                    unresolved = True
            if not ok:
                if unresolved:
                    res_bump('unresolved')
                else:
                    v.append(('fullcore-not-an-assertion', {'formula': f}))
                    return v, info
        t = refs.truth(prelude, forms)
        if t is None:
            res_bump('unresolved')
        elif t == 'sat':
            v.append(('fullcore-satisfiable', {'core': forms}))
            return v, info
        if minimal and t == 'unsat':
            for i in range(len(forms)):
                t2 = refs.truth(prelude, forms[:i] + forms[i + 1:])
                if t2 is None:
                    res_bump('unresolved')
                elif t2 == 'unsat':
                    v.append(('core-reducible', {'core': forms, 'removable': forms[i]}))
                    break
    return v, info


# ------------------------------------------------------------------------------------------- interpolants
def user_symbols(text, declared):
    return {t.strip('|') for t in sexpr.atoms(sexpr.parse_one(text)) if t.strip('|') in declared}


def check_interpolants(refs, hist, snap, prof, cmd, out, res_bump, prelude, assert_syms):
    """cmd: the get-interpolants command dict (groups of names). Returns (violations, info)."""
    v = []
    info = {}
    groups = cmd['groups']
    by_name = {a['name']: a for a in snap['asserts'] if a['name']}
    if any(n not in by_name for g in groups for n in g):
        return v, {'skipped': 'request-uses-dead-name'}
    lines = [l for l in out.split('\n') if l.strip() and not l.lstrip().startswith(';')]
    if any(l.startswith('(error') for l in lines):
        v.append(('itp-request-rejected', {'output': out.strip()[:300]}))
        return v, info
    try:
        e = sexpr.parse_one('\n'.join(lines))
    except sexpr.SexprError as err:
        raise Unparsable('interpolants: %s' % err)
    if not isinstance(e, list) or len(e) != len(groups) - 1:
        raise Unparsable('interpolants: expected %d formulas, got %s' % (len(groups) - 1, len(e) if isinstance(e, list) else 'atom'))
    itps = [sexpr.to_str(translate(x, prof)) for x in e]
    info['itps'] = itps
    declared = {d['name'] for d in hist['decls'] if d['k'] == 'declare-fun'}
    all_refs = [a['ref'] for a in snap['asserts']]
    for j, itp in enumerate(itps):
        a_names = {n for g in groups[:j + 1] for n in g}
        A = [by_name[n]['ref'] for n in sorted(a_names)]
        B = [a['ref'] for a in snap['asserts'] if a['name'] not in a_names]
        t = refs.truth(prelude, A + ['(not %s)' % itp])
        if t is None:
            res_bump('unresolved')
        elif t == 'sat':
            v.append(('itp-not-implied-by-A', {'index': j, 'itp': itp, 'A': A}))
            return v, info
        t = refs.truth(prelude, B + [itp])
        if t is None:
            res_bump('unresolved')
        elif t == 'sat':
            v.append(('itp-consistent-with-B', {'index': j, 'itp': itp, 'B': B}))
            return v, info
        sa = set()
        for n in a_names:
            sa |= assert_syms[by_name[n]['idx']]
        sb = set()
        for a in snap['asserts']:
            if a['name'] not in a_names:
                sb |= assert_syms[a['idx']]
        foreign = user_symbols(itp, declared) - (sa & sb)
        if foreign:
            v.append(('itp-foreign-symbol', {'index': j, 'itp': itp, 'symbols': sorted(foreign)}))
            return v, info
    for j in range(len(itps) - 1):
        G = [by_name[n]['ref'] for n in groups[j + 1]]
        t = refs.truth(prelude, [itps[j]] + G + ['(not %s)' % itps[j + 1]])
        if t is None:
            res_bump('unresolved')
        elif t == 'sat':
            v.append(('path-step-fails', {'index': j, 'itps': itps}))
            return v, info
    return v, info


# ------------------------------------------------------------------------------------------- proofs (R-res)
class Proof:
    """Parsed (proof ...) text: bindings in order, stated resolvents from the ';' comment lines, final reference."""

    def __init__(self, out):
        self.leaves = {}      # name -> frozenset of literals
        self.derived = {}     # name -> expression (nested res)
        self.stated = {}      # name -> frozenset of literals or None
        self.order = []
        self.final = None
        comment = None
        seen_let = False
        for line in out.split('\n'):
            s = line.strip()
            if not s:
                continue
            if s.startswith(';'):
                comment = s[1:].strip()
                continue
            if s.startswith('(let (cls_'):
                seen_let = True
                try:
                    e = sexpr.parse_one(s + ')')
                except sexpr.SexprError as err:
                    raise Unparsable('proof line: %s' % err)
                name, x = e[1][0], (e[1][1] if len(e[1]) > 1 else None)
                if x is None:
                    raise Unparsable('proof binding without body')
                self.order.append(name)
                if isinstance(x, list) and x and x[0] == 'res':
                    self.derived[name] = x
                    self.stated[name] = self.parse_clause_text(comment) if comment is not None else None
                else:
                    # OpenSMT prints a unit clause as its bare literal (followed by a blank) and a longer clause as
                    # "(or l1 l2 ... )" with a blank before the closing parenthesis; a unit clause whose literal is
                    # itself an or-term is told apart from a clause by that blank.
                    body = s[len('(let (' + name):-1].strip()
                    is_clause = isinstance(x, list) and x and x[0] == 'or' and body.endswith(' )')
                    self.leaves[name] = frozenset(self.lit_of(l) for l in x[1:]) if is_clause else frozenset([self.lit_of(x)])
                comment = None
                continue
            if s.startswith('cls_') and seen_let and self.final is None:
                self.final = s
                continue
            if s.startswith(':core'):
                break

    @staticmethod
    def lit_of(x):
        if isinstance(x, list) and len(x) == 2 and x[0] == 'not':
            return (sexpr.to_str(x[1]), False)
        return (sexpr.to_str(x), True)

    def clause_of(self, x):
        if isinstance(x, list) and x and x[0] == 'or':
            return frozenset(self.lit_of(l) for l in x[1:])
        return frozenset([self.lit_of(x)])

    def parse_clause_text(self, text):
        if text == '-':
            return frozenset()
        try:
            items = sexpr.parse_all(text)
        except sexpr.SexprError:
            return None
        if len(items) == 1 and isinstance(items[0], list) and items[0] and items[0][0] == 'or' and text.rstrip().endswith(' )'):
            return frozenset(self.lit_of(l) for l in items[0][1:])
        if len(items) != 1:
            return None
        return frozenset([self.lit_of(items[0])])


def check_proof_structure(proof):
    """Closedness and validity of every resolution step. Returns (violations, clause table)."""
    v = []
    table = dict(proof.leaves)

    def ev(x):
        if isinstance(x, str):
            if x not in table:
                raise KeyError(x)
            return table[x]
        if isinstance(x, list) and len(x) == 4 and x[0] == 'res':
            a, b = ev(x[1]), ev(x[2])
            p = sexpr.to_str(x[3])
            if (p, True) in a and (p, False) in b:
                pass
            elif (p, False) in a and (p, True) in b:
                pass
            else:
                raise ValueError(p)
            return frozenset((a | b) - {(p, True), (p, False)})
        raise Unparsable('proof expression')

    for name in proof.order:
        if name in proof.derived:
            try:
                c = ev(proof.derived[name])
            except KeyError as k:
                v.append(('proof-unbound-reference', {'reference': str(k.args[0]), 'in': name}))
                return v, table
            except ValueError as p:
                v.append(('proof-bad-pivot', {'pivot': str(p.args[0]), 'in': name}))
                return v, table
            table[name] = c
            st = proof.stated.get(name)
            if st is not None and st != c:
                v.append(('proof-wrong-resolvent', {'in': name, 'stated': sorted(map(str, st)), 'computed': sorted(map(str, c))}))
                return v, table
    if proof.final is None or proof.final not in table:
        v.append(('proof-unbound-reference', {'reference': proof.final, 'in': 'final'}))
        return v, table
    if len(table[proof.final]) != 0:
        v.append(('proof-not-empty', {'final': sorted(map(str, table[proof.final]))}))
    return v, table


def lit_text(l, prof):
    t = to_ref_text(l[0], prof)
    return t if l[1] else '(not %s)' % t
